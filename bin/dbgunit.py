import sys, json; import os; sys.path.insert(0, os.path.dirname(os.path.dirname(os.path.abspath(__file__))))
from pyvc.world import World
from pyvc import ctx as C, runner
reg = runner.load_specs()
w = World()
name, filt = sys.argv[1], sys.argv[2] if len(sys.argv)>2 else ""
import json
kf = json.load(open(os.path.join(os.path.dirname(os.path.dirname(os.path.abspath(__file__))), 'known_findings.json')))
for u in reg:
    if u.name == name:
        r = C.run_unit(w, u, "quick", 0, [k["id"] for k in kf["findings"]])
        print("ERR", r.error)
        for o in r.obligations:
            if o["status"] not in ("discharged",) and filt in o["name"]:
                d = dict(o); rp = d.pop("replay", None) or d.pop("differential", None)
                print(json.dumps(d)[:600])
                if rp:
                    for k in ("call","observed","symbolic_exit","detail","reproduced","agrees","emitted_lines"): print("   ", k, ":", str(rp.get(k))[:1500])
                    if len(sys.argv)>3: print(json.dumps(rp.get("pre_state"))[:3000])
