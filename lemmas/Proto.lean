/-
Lemma library, protocol part (C15 history argument, DESIGN §4 C15).

A firmware that accepts a frame only when it is intact and carries the line number it expects, fed by ANY sequence of
transmissions (in any order, with any repetitions, any subset corrupted) from a numbering-faithful source — every frame numbered k
carries the k-th job line — has accepted exactly a prefix of the job: every line at most once, in the original order.
The per-call contracts of printcore._send / _sendnext (specs/printrun_units.py) establish numbering-faithfulness; this lemma is the
step from there to the safety half of C15.  Liveness (the prefix eventually becomes the whole job) is not claimed.
-/
import Mathlib.Data.List.Basic

namespace Verif

structure Tx (α : Type) where
  k : Nat
  payload : α
  intact : Bool

/-- firmware state: (accepted log, next expected line number) -/
def fwStep {α : Type} (s : List α × Nat) (t : Tx α) : List α × Nat :=
  if t.intact = true ∧ t.k = s.2 then (s.1 ++ [t.payload], s.2 + 1) else s

theorem fwStep_inv {α : Type} (job : List α) (s : List α × Nat) (t : Tx α)
    (hs : s.1 = job.take s.2) (ht : job[t.k]? = some t.payload) :
    (fwStep s t).1 = job.take (fwStep s t).2 := by
  unfold fwStep
  split
  · rename_i h
    obtain ⟨_, hk⟩ := h
    simp only
    rw [hs, ← hk]
    have hlt : t.k < job.length := by
      by_contra hge
      have : job[t.k]? = none := List.getElem?_eq_none (by omega)
      rw [this] at ht; cases ht
    have hget : job[t.k] = t.payload := by
      have := List.getElem?_eq_getElem hlt
      rw [this] at ht; exact Option.some.inj ht
    rw [List.take_succ, List.getElem?_eq_getElem hlt, hget]
    simp
  · exact hs

/-- Proto.prefix: the accepted log is always a prefix of the job -/
theorem accepted_is_prefix {α : Type} (job : List α) (txs : List (Tx α))
    (faithful : ∀ t ∈ txs, job[t.k]? = some t.payload) (s : List α × Nat) (hs : s.1 = job.take s.2) :
    (txs.foldl fwStep s).1 = job.take (txs.foldl fwStep s).2 := by
  induction txs generalizing s with
  | nil => simpa using hs
  | cons t rest ih =>
    simp only [List.foldl_cons]
    apply ih
    · intro t' ht'; exact faithful t' (List.mem_cons_of_mem _ ht')
    · exact fwStep_inv job s t hs (faithful t (List.mem_cons_self))

end Verif
