/-
Lemma library, trigonometric part: the facts specs/tracer_units.py uses as instances T1–T6 (and the product bound used for the
end-point tolerance).  `at2 y x` is the argument of the complex number x + iy, `hyp x y` its modulus.
Independent of the repository; checked by the Lean 4 kernel with Mathlib.
-/
import Mathlib.Analysis.SpecialFunctions.Complex.Arg
import Mathlib.Analysis.SpecialFunctions.Trigonometric.Basic
import Mathlib.Analysis.SpecialFunctions.Pow.Real
import Mathlib.Analysis.SpecialFunctions.Trigonometric.Bounds

open Real

namespace Verif

noncomputable def hyp (x y : ℝ) : ℝ := ‖(⟨x, y⟩ : ℂ)‖
noncomputable def at2 (y x : ℝ) : ℝ := Complex.arg ⟨x, y⟩

/-- T1 -/
theorem cos_sq_add_sin_sq' (u : ℝ) : cos u * cos u + sin u * sin u = 1 := by
  have := Real.cos_sq_add_sin_sq u
  nlinarith [this]

/-- T2 -/
theorem periodic (u v : ℝ) (k : ℤ) (h : u - v = 2 * π * k) : cos u = cos v ∧ sin u = sin v := by
  have hu : u = v + k * (2 * π) := by linarith
  subst hu
  exact ⟨Real.cos_add_int_mul_two_pi v k, Real.sin_add_int_mul_two_pi v k⟩

/-- T3 -/
theorem polar (x y : ℝ) : hyp x y * cos (at2 y x) = x ∧ hyp x y * sin (at2 y x) = y := by
  constructor
  · simpa [hyp, at2] using Complex.norm_mul_cos_arg (⟨x, y⟩ : ℂ)
  · simpa [hyp, at2] using Complex.norm_mul_sin_arg (⟨x, y⟩ : ℂ)

/-- T4 -/
theorem arg_range (x y : ℝ) : -π < at2 y x ∧ at2 y x ≤ π :=
  ⟨Complex.neg_pi_lt_arg _, Complex.arg_le_pi _⟩

/-- T5 -/
theorem hypot (x y : ℝ) : 0 ≤ hyp x y ∧ hyp x y * hyp x y = x * x + y * y := by
  refine ⟨norm_nonneg _, ?_⟩
  have := Complex.sq_norm (⟨x, y⟩ : ℂ)
  simp [Complex.normSq_apply] at this
  unfold hyp
  nlinarith [this]

/-- T6 -/
theorem sqrt_spec (a : ℝ) (h : 0 ≤ a) : 0 ≤ Real.sqrt a ∧ Real.sqrt a * Real.sqrt a = a :=
  ⟨Real.sqrt_nonneg a, Real.mul_self_sqrt h⟩

/-- product bound used for the end point of an arc: |b| ≤ 1 → |a·b| ≤ |a| -/
theorem mul_le_abs (a b : ℝ) (h : |b| ≤ 1) : |a * b| ≤ |a| := by
  rw [abs_mul]
  calc |a| * |b| ≤ |a| * 1 := by exact mul_le_mul_of_nonneg_left h (abs_nonneg a)
    _ = |a| := by ring

end Verif

namespace Verif

/-- T9 chord_le_arc: two points of the unit circle are no further apart than the angle between them -/
theorem chord_le_arc (a b : ℝ) : (Real.cos a - Real.cos b) ^ 2 + (Real.sin a - Real.sin b) ^ 2 ≤ (a - b) ^ 2 := by
  have h := Real.one_sub_sq_div_two_le_cos (x := a - b)
  have hs := Real.cos_sub a b
  have ha := Real.cos_sq_add_sin_sq a
  have hb := Real.cos_sq_add_sin_sq b
  nlinarith [h, hs, ha, hb]

end Verif
