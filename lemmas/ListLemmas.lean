/-
Lemma library, list part (used by specs/writers_units.py as instances L1, L2).
Independent of the repository: plain facts about duplicate-free lists, checked by the Lean 4 kernel with Mathlib.
-/
import Mathlib.Data.List.Nodup

namespace Verif

/-- L1 nodup_snoc: appending an element that is not present keeps the list duplicate-free. -/
theorem nodup_snoc {α : Type} (s : List α) (w : α) (h : s.Nodup) (hw : w ∉ s) : (s ++ [w]).Nodup := by
  rw [List.nodup_append]
  refine ⟨h, List.nodup_singleton w, ?_⟩
  intro a ha b hb
  simp at hb
  subst hb
  intro hab
  exact hw (hab ▸ ha)

/-- L2 nodup_middle: in a duplicate-free list a ++ [w] ++ b the element w occurs neither in a nor in b, and a ++ b is duplicate-free;
    hence w does not occur in a ++ b. -/
theorem nodup_middle {α : Type} (a b : List α) (w : α) (h : (a ++ [w] ++ b).Nodup) :
    w ∉ a ∧ w ∉ b ∧ (a ++ b).Nodup ∧ w ∉ (a ++ b) := by
  have h' : (a ++ w :: b).Nodup := by simpa [List.append_assoc] using h
  have hmid := List.nodup_middle.mp h'
  have hwab : w ∉ a ++ b := (List.nodup_cons.mp hmid).1
  have hab : (a ++ b).Nodup := (List.nodup_cons.mp hmid).2
  refine ⟨?_, ?_, hab, hwab⟩
  · intro hwa; exact hwab (List.mem_append.mpr (Or.inl hwa))
  · intro hwb; exact hwab (List.mem_append.mpr (Or.inr hwb))

end Verif
