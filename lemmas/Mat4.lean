/-
Lemma library, matrix part (specs/transform_units.py): associativity of the matrix–vector product, used in the form
R·(M·v) = (R·M)·v = v once wf_tx gives R·M = 1.  Independent of the repository.
-/
import Mathlib.Data.Matrix.Mul
import Mathlib.Data.Real.Basic

namespace Verif

/-- Mat4.mulVec_assoc -/
theorem mulVec_assoc {n : Type} [Fintype n] (R M : Matrix n n ℝ) (v : n → ℝ) :
    R.mulVec (M.mulVec v) = (R * M).mulVec v := by
  simp [Matrix.mulVec_mulVec]

/-- reverse ∘ apply = id from _inverse · _matrix = 1 -/
theorem reverse_apply {n : Type} [Fintype n] [DecidableEq n] (R M : Matrix n n ℝ) (v : n → ℝ) (h : R * M = 1) :
    R.mulVec (M.mulVec v) = v := by
  rw [mulVec_assoc, h, Matrix.one_mulVec]

end Verif
