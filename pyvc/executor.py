"""Forward symbolic execution with state merging over the repository's real AST (DESIGN §2.3)."""
import ast
import z3
from .values import *
from .state import State, Exit, join
from .exec_expr import ExprMixin
from .exec_call import CallMixin


class X(ExprMixin, CallMixin):
    def __init__(self, world, contracts=None, ext=None, assume=None):
        self.w = world
        self.contracts = contracts if contracts is not None else {}      # (Class, method) -> handler(X, recv, args, kwargs, st)
        self.ext = ext if ext is not None else {}                        # external functions / hooks by name
        self.ext_names = {}                                              # global names -> values (modules etc.)
        self.iter_handlers = []                                          # [(predicate(iterable value, state), handler)]: loop contracts attached to WHAT is iterated, wherever the loop lives
        self.loop_handlers = {}                                          # (qual, ordinal) -> handler(X, node, st)
        self.opaque_ops, self.opaque_eq, self.opaque_truth = {}, {}, {}
        self.opaque_methods, self.opaque_call, self.opaque_isinstance = {}, {}, {}
        self.assume = [] if assume is None else assume      # shared with the unit context: later assumptions are visible
        self.exits = []
        self.depth, self.max_depth = 0, 12
        self.cur_qual, self.cur_mod = "<top>", None
        self.loop_ord = 0
        self.prune_ms = 3000
        self.string_mode = False
        self.inlined = set()
        self.stats = {"prune_queries": 0}

    # ------------------------------------------------------------------ entry point
    def run(self, qual, args, kwargs, st, closure=None, split_returns=False):
        """execute function `qual` on state st; returns (end_state_value_pairs) as list of Exit incl. normal return.
        split_returns: keep one exit per `return` statement of the top-level function instead of merging them (smaller queries)"""
        node, owner, mod = self.w.function(qual)
        self.cur_mod = mod
        self.exits = []
        if split_returns:
            env = dict(closure or {})
            self.bind_args(node, args, kwargs, st, env)
            if owner: env["__class__"] = owner
            self.inlined.add(qual)
            cs = State(st.pc, env, st.heap, st.log)
            self.cur_qual = qual; self.depth = 1; self.loop_ord = 0
            end = self.block(node.body, cs)
            exits = list(self.exits)
            if not end.dead: exits.append(Exit("return", end.pc, NONE, end.snap(), list(end.log), None, qual))
            st.pc = F
            return exits
        ret = self.call_fn(node, args, kwargs, st, closure=closure, owner=owner, qual=qual)
        exits = list(self.exits)
        if not st.dead:
            exits.append(Exit("return", st.pc, ret, st.snap(), list(st.log), None, qual))
        return exits

    def run_snippet(self, src, st, qual="<snippet>", mod=None):
        """execute client code (python source using the public API) on state st: used for with-statement contracts"""
        tree = ast.parse(src)
        self.cur_mod = mod or self.cur_mod
        self.cur_qual = qual
        self.exits = []
        self.block(tree.body, st)
        exits = list(self.exits)
        if not st.dead: exits.append(Exit("return", st.pc, NONE, st.snap(), list(st.log), dict(st.env), qual))
        return exits

    # ------------------------------------------------------------------ statements
    def block(self, stmts, st):
        for s in stmts:
            if st.dead: break
            m = getattr(self, "s_" + type(s).__name__, None)
            if m is None: raise Unsupported(f"stmt {type(s).__name__} @ {self.where(s)}")
            m(s, st)
        return st

    def s_Expr(self, s, st):
        if isinstance(s.value, ast.Constant): return
        if isinstance(s.value, (ast.Yield, ast.YieldFrom)): raise Unsupported(f"yield outside a split context manager @ {self.where(s)}")
        self.ev(s.value, st)

    def s_Pass(self, s, st): pass
    def s_Import(self, s, st): pass
    def s_ImportFrom(self, s, st): pass
    def s_Global(self, s, st): raise Unsupported("global")

    def s_Return(self, s, st):
        v = self.ev(s.value, st) if s.value else NONE
        if not st.dead: self.exits.append(Exit("return", st.pc, v, st.snap(), list(st.log), None, self.where(s)))
        st.pc = F

    def s_Raise(self, s, st):
        if s.exc is None:
            cur = st.env.get("$exc")
            if cur is None: raise Unsupported("bare raise outside handler")
            self.raise_if(st, T, cur, s); st.pc = F; return
        v = self.ev(s.exc, st)
        if isinstance(v, VOpt): v = self.need(st, v, "TypeError", s)
        if isinstance(v, VClass): v = VExc(v.name)
        if not isinstance(v, VExc): raise Unsupported(f"raise of {type(v).__name__}")
        if not st.dead:
            self.exits.append(Exit("raise", st.pc, v.cls, st.snap(), list(st.log), None, self.where(s)))
        st.pc = F

    def s_Break(self, s, st):
        self.exits.append(Exit("break", st.pc, None, st.snap(), list(st.log), dict(st.env), self.where(s))); st.pc = F

    def s_Continue(self, s, st):
        self.exits.append(Exit("continue", st.pc, None, st.snap(), list(st.log), dict(st.env), self.where(s))); st.pc = F

    def s_If(self, s, st):
        c = simp(self.truth(self.ev(s.test, st), st))
        if st.dead: return
        if z3.is_true(c): self.block(s.body, st); return
        if z3.is_false(c): self.block(s.orelse, st); return
        sa, sb = st.fork(c), st.fork(NOT(c))
        if not sa.dead and not self.feasible(sa.pc): sa.pc = F
        if not sb.dead and not self.feasible(sb.pc): sb.pc = F
        if not sa.dead: self.block(s.body, sa)
        if not sb.dead: self.block(s.orelse, sb)
        st.take(join(c, sa, sb))

    def s_Assign(self, s, st):
        v = self.ev(s.value, st)
        for t in s.targets: self.assign(t, v, st)

    def s_AnnAssign(self, s, st):
        if s.value is not None: self.assign(s.target, self.ev(s.value, st), st)

    def s_AugAssign(self, s, st):
        load = ast.copy_location(_as_load(s.target), s.target)
        cur = self.ev(load, st)
        v = self.binop(s.op, cur, self.ev(s.value, st), st, s)
        self.assign(s.target, v, st)

    def assign(self, t, v, st):
        if isinstance(t, ast.Name): st.env[t.id] = v
        elif isinstance(t, ast.Attribute):
            base = self.ev(t.value, st)
            if isinstance(base, VOpt): base = self.need(st, base, "AttributeError", t)
            if not isinstance(base, VRef): raise Unsupported(f"attribute store on {type(base).__name__} @ {self.where(t)}")
            h = self.contracts.get((base.cls, "@set:" + t.attr))
            if h is not None: h(self, base, [v], {}, st); return
            st.heap[base.oid][t.attr] = v
        elif isinstance(t, (ast.Tuple, ast.List)):
            vv = v
            if isinstance(vv, VRef) and "$l" in st.heap.get(vv.oid, {}): vv = st.heap[vv.oid]["$l"]
            if isinstance(vv, VList) and any(isinstance(i, tuple) for i in vv.items):
                # unpacking a list with guarded elements: exactly len(targets) elements must be present, else ValueError
                g = [(i[1], i[2]) if isinstance(i, tuple) else (T, i) for i in vv.items]
                k = len(t.elts)
                exact = AND(*[p for p, _ in g[:k]], *[NOT(p) for p, _ in g[k:]]) if len(g) >= k else F
                self.raise_if(st, NOT(exact), "ValueError", t)
                for tt, (_, val) in zip(t.elts, g[:k]): self.assign(tt, val, st)
                return
            items = self.unpack(v, st, t)
            if len(items) != len(t.elts):
                self.raise_if(st, T, "ValueError", t); return
            for tt, vv in zip(t.elts, items): self.assign(tt, vv, st)
        elif isinstance(t, ast.Subscript):
            base = self.ev(t.value, st)
            if isinstance(base, VRef):
                obj = st.heap[base.oid]
                if "$a" in obj:
                    self.ext["arr_store"](self, base, t.slice, v, st, t); return
                h = self.contracts.get((base.cls, "__setitem__"))
                if h is not None:
                    h(self, base, [self.ev(t.slice, st) if not isinstance(t.slice, ast.Slice) else t.slice, v], {}, st); return
                if "$d" in obj:
                    k = self.ev(t.slice, st)
                    if not (isinstance(k, VStr) and k.py is not None): raise Unsupported(f"dict store with symbolic key @ {self.where(t)}")
                    d = obj["$d"].copy(); self.dict_set(d, k.py, v, T); obj["$d"] = d; return
                if "$l" in obj:
                    i = self.concrete(self.ev(t.slice, st))
                    if i is None: raise Unsupported("list store with symbolic index")
                    items = list(obj["$l"].items); items[i] = v; obj["$l"] = VList(items); return
            if isinstance(base, VOpaque):
                self.opaque_op("Store", [base, t, v], st, t); return
            raise Unsupported(f"subscript store on {type(base).__name__} @ {self.where(t)}")
        else: raise Unsupported("assign target")

    def s_FunctionDef(self, s, st):
        st.env[s.name] = VClosure(s, st.env, st.env.get("__class__"), f"{self.cur_qual}.<locals>.{s.name}")

    def s_Delete(self, s, st):
        for t in s.targets:
            if isinstance(t, ast.Subscript):
                base = self.ev(t.value, st)
                if isinstance(base, VRef) and "$d" in st.heap[base.oid]:
                    self.call_method(base, "pop", [self.ev(t.slice, st)], {}, st, s); continue
            raise Unsupported("del")

    # ------------------------------------------------------------------ loops
    def s_For(self, s, st):
        self.loop_ord += 1
        h = self.loop_handlers.get((self.cur_qual, self.loop_ord))
        if h is not None:
            h(self, s, st); return
        it = self.ev(s.iter, st)
        for pred, hh in self.iter_handlers:
            if pred(it, st):
                hh(self, s, st); return
        items = self.iter_items(it, st, s)
        self.unrolled_loop(s, items, st)

    def unrolled_loop(self, s, items, st):
        breaks = []
        n0 = len(self.exits)
        for g, v in items:
            if st.dead: break
            g = simp(g)
            if z3.is_false(g): continue
            body_st = st.fork(g); skip_st = st.fork(NOT(g))
            self.assign(s.target, v, body_st)
            self.block(s.body, body_st)
            # continue exits rejoin the iteration's end; break exits leave the loop
            new = self.exits[n0:]; del self.exits[n0:]
            for e in new:
                if e.kind == "continue":
                    cs = State(e.cond, e.env, e.heap, e.log)
                    body_st.take(join(e.cond, cs, body_st))
                elif e.kind == "break": breaks.append(e)
                else: self.exits.append(e)
            n0 = len(self.exits)
            st.take(join(g, body_st, skip_st))
        if s.orelse and not st.dead: self.block(s.orelse, st)
        for e in breaks:
            bs = State(e.cond, e.env, e.heap, e.log)
            st.take(join(e.cond, bs, st))

    def s_While(self, s, st):
        self.loop_ord += 1
        h = self.loop_handlers.get((self.cur_qual, self.loop_ord))
        if h is None: raise Unsupported(f"while loop without contract @ {self.where(s)}")
        h(self, s, st)

    # ------------------------------------------------------------------ try / with
    def run_protected(self, fn, st):
        n0 = len(self.exits)
        fn(st)
        new = self.exits[n0:]; del self.exits[n0:]
        return new

    def s_Try(self, s, st):
        env0 = dict(st.env)
        new = self.run_protected(lambda st_: self.block(s.body, st_), st)
        handled = []
        for e in new:
            h = None
            if e.kind == "raise":
                for hd in s.handlers:
                    if hd.type is None: h = hd; break
                    names = [self._tname(hd.type)] if not isinstance(hd.type, ast.Tuple) else [self._tname(t) for t in hd.type.elts]
                    if any(self.w.exc_matches(e.payload, nm) for nm in names): h = hd; break
            if h is None:
                self._leave_try(s, e, env0); continue
            hs = State(e.cond, dict(env0), {k: dict(v) for k, v in e.heap.items()}, list(e.log))
            hs.env["$exc"] = e.payload
            if h.name: hs.env[h.name] = VExc(e.payload)
            inner = self.run_protected(lambda st_: self.block(h.body, st_), hs)
            for e2 in inner: self._leave_try(s, e2, env0)
            if not hs.dead:
                hs.env.pop("$exc", None); handled.append(hs)
        if s.orelse and not st.dead:
            inner = self.run_protected(lambda st_: self.block(s.orelse, st_), st)
            for e2 in inner: self._leave_try(s, e2, env0)
        for hs in handled:
            st.take(join(hs.pc, hs, st))
        if s.finalbody and not st.dead: self.block(s.finalbody, st)

    def _tname(self, t):
        if isinstance(t, ast.Name): return t.id
        if isinstance(t, ast.Attribute): return t.attr
        raise Unsupported("except type expr")

    def _leave_try(self, s, e, env0):
        if not s.finalbody:
            self.exits.append(e); return
        fs = State(e.cond, dict(e.env if e.env is not None else env0), {k: dict(v) for k, v in e.heap.items()}, list(e.log))
        self.block(s.finalbody, fs)
        if not fs.dead:
            self.exits.append(Exit(e.kind, fs.pc, e.payload, fs.snap(), list(fs.log), dict(fs.env) if e.env is not None else None, e.where))

    def split_cm(self, node):
        """@contextmanager generator -> (pre, yield value expr, post_on_exception, post_on_normal_exit); exactly one yield, which
        is a top-level statement of the generator body or the only statement of a top-level try/finally without handlers"""
        yields = [n for n in ast.walk(node) if isinstance(n, (ast.Yield, ast.YieldFrom))]
        if len(yields) != 1: raise Unsupported(f"context manager {node.name} with {len(yields)} yields")
        body = [b for b in node.body if not (isinstance(b, ast.Expr) and isinstance(b.value, ast.Constant))]
        for i, b in enumerate(body):
            if isinstance(b, ast.Expr) and b.value is yields[0]:
                return body[:i], yields[0].value, None, body[i + 1:]                 # no try: an exception in the with-body skips the rest
            if isinstance(b, ast.Try) and len(b.body) == 1 and isinstance(b.body[0], ast.Expr) and b.body[0].value is yields[0] \
                    and not b.handlers and not b.orelse:
                return body[:i], yields[0].value, list(b.finalbody), list(b.finalbody) + body[i + 1:]
        raise Unsupported(f"context manager shape of {node.name}")

    def s_With(self, s, st):
        if len(s.items) != 1:
            inner = ast.With(items=s.items[1:], body=s.body); ast.copy_location(inner, s)
            outer = ast.With(items=s.items[:1], body=[inner]); ast.copy_location(outer, s)
            return self.s_With(outer, st)
        item = s.items[0]; ce = item.context_expr
        if not (isinstance(ce, ast.Call) and isinstance(ce.func, ast.Attribute)): raise Unsupported(f"with form @ {self.where(s)}")
        recv = self.ev(ce.func.value, st)
        if isinstance(recv, VRef):
            h = self.contracts.get((recv.cls, "with:" + ce.func.attr))
            if h is not None: return h(self, recv, s, st)
        if not isinstance(recv, VRef): raise Unsupported("with receiver")
        found = self.w.lookup(recv.cls, ce.func.attr)
        if found is None: raise Unsupported("with: unknown context manager")
        node, owner = found
        if "contextmanager" not in self.w.decorators(node): raise Unsupported("with on non-generator context manager")
        pre, yv, post_exc, post = self.split_cm(node)
        args = self.seq_items(ce.args, st)
        kwargs = {k.arg: self.ev(k.value, st) for k in ce.keywords}
        cm_env = {"__class__": owner}
        self.bind_args(node, [recv] + args, kwargs, st, cm_env)
        qual = f"{owner}.{ce.func.attr}"
        self.inlined.add(qual)

        def in_cm(stmts, state, env):
            cs = State(state.pc, env, state.heap, state.log)
            saved = (self.cur_qual, self.cur_mod, self.depth, self.loop_ord)
            self.cur_qual, self.cur_mod, self.depth = qual, self.w.classes[owner].module, self.depth + 1
            n0 = len(self.exits)
            try: self.block(stmts, cs)
            finally: self.cur_qual, self.cur_mod, self.depth, self.loop_ord = saved
            for e in self.exits[n0:]:
                if e.kind != "raise": raise Unsupported("return/break inside context manager halves")
            state.pc, state.heap, state.log = cs.pc, cs.heap, cs.log
            return cs.env
        env_after = in_cm(pre, st, cm_env)
        if st.dead: return
        if item.optional_vars is not None:
            yval = self.ev(yv, State(st.pc, env_after, st.heap, st.log)) if yv is not None else NONE
            self.assign(item.optional_vars, yval, st)
        env0 = dict(st.env)
        new = self.run_protected(lambda st_: self.block(s.body, st_), st)
        for e in new:
            if e.kind == "raise" and post_exc is None:
                self.exits.append(e); continue        # generator without try/finally: exception propagates, post does not run
            fs = State(e.cond, dict(e.env if e.env is not None else env0), {k: dict(v) for k, v in e.heap.items()}, list(e.log))
            in_cm(post_exc if e.kind == "raise" else post, fs, dict(env_after))
            if not fs.dead:
                self.exits.append(Exit(e.kind, fs.pc, e.payload, fs.snap(), list(fs.log), dict(fs.env) if e.env is not None else None, e.where))
        if not st.dead: in_cm(post, st, dict(env_after))

    def s_Assert(self, s, st):
        c = simp(self.truth(self.ev(s.test, st), st))
        self.raise_if(st, NOT(c), "AssertionError", s)


def _as_load(t):
    import copy
    t2 = copy.deepcopy(t)
    for n in ast.walk(t2):
        if hasattr(n, "ctx"): n.ctx = ast.Load()
    return t2
