"""Expression evaluation over the real AST (mixin of the executor)."""
import ast, math
from fractions import Fraction
import z3
from .values import *
from .state import State, Exit, join


class ExprMixin:
    # ------------------------------------------------------------------ helpers
    def feasible(self, cond):
        c = simp(cond)
        if z3.is_false(c): return False
        if z3.is_true(c): return True
        s = z3.Solver(); s.set("timeout", self.prune_ms); s.set("arith.nl", False)
        s.add(self.assume); s.add(c)
        self.stats["prune_queries"] += 1
        return s.check() != z3.unsat

    def raise_if(self, st, guard, exc, node=None):
        """add a raise exit under guard (if feasible) and continue under its negation"""
        g = simp(AND(st.pc, guard))
        if z3.is_false(g): return
        if not self.feasible(g):
            st.pc = simp(AND(st.pc, NOT(guard))); return
        cls = exc if isinstance(exc, str) else exc.cls
        self.exits.append(Exit("raise", g, cls, st.snap(), list(st.log), None, self.where(node)))
        st.pc = simp(AND(st.pc, NOT(guard)))

    def where(self, node):
        ln = getattr(node, "lineno", None) if node is not None else None
        return f"{self.cur_qual}:{ln}" if ln else self.cur_qual

    def truth(self, v, st=None):
        if isinstance(v, VBool): return v.t
        if isinstance(v, VNone): return F
        if isinstance(v, VOpt):
            if v.inner is None: return F
            return AND(NOT(v.none), self.truth(v.inner, st))
        if isinstance(v, VNum): return n_truth(v)
        if isinstance(v, VStr):
            if v.py is not None: return z3.BoolVal(bool(v.py))
            return z3.Length(v.term) > 0
        if isinstance(v, (VPoint, VStmt, VClosure, VFunc, VEnum, VClass, VExc)):
            if isinstance(v, VEnum): return z3.BoolVal(True)   # str-enums with non-empty values
            return T
        if isinstance(v, (VTuple, VList)):
            if any(isinstance(i, tuple) for i in v.items): return OR(*[(i[1] if isinstance(i, tuple) else T) for i in v.items])
            return z3.BoolVal(len(v.items) > 0)
        if isinstance(v, VDict): return OR(*v.present.values())
        if isinstance(v, VRef):
            if st is not None and "$d" in st.heap.get(v.oid, {}): return self.truth(st.heap[v.oid]["$d"])
            if st is not None and "$l" in st.heap.get(v.oid, {}): return self.truth(st.heap[v.oid]["$l"])
            if st is not None and "$len" in st.heap.get(v.oid, {}): return st.heap[v.oid]["$len"].val > 0
            return T
        if isinstance(v, VOpaque):
            h = self.opaque_truth.get(v.sort)
            if h: return h(v)
        raise Unsupported(f"truth of {type(v).__name__}")

    def need(self, st, v, exc="TypeError", node=None):
        """use an Optional where a value is required: raise under the None guard, continue with the inner value"""
        if isinstance(v, VNone):
            self.raise_if(st, T, exc, node); return num(0)
        if isinstance(v, VOpt):
            self.raise_if(st, v.none, exc, node)
            return v.inner if v.inner is not None else num(0)
        return v

    def as_num(self, st, v, node=None):
        v = self.need(st, v, "TypeError", node)
        if isinstance(v, VBool): return VNum(z3.IntVal(0), ITE(v.t, z3.RealVal(1), z3.RealVal(0)), True)
        if isinstance(v, VNum): return v
        raise Unsupported(f"number expected, got {type(v).__name__} @ {self.where(node)}")

    # ------------------------------------------------------------------ dispatch
    def ev(self, n, st):
        m = getattr(self, "e_" + type(n).__name__, None)
        if m is None: raise Unsupported(f"expr {type(n).__name__} @ {self.where(n)}")
        return m(n, st)

    def e_Constant(self, n, st):
        v = n.value
        if v is None: return NONE
        if isinstance(v, bool): return VBool(z3.BoolVal(v))
        if isinstance(v, (int, float)): return num(v)
        if isinstance(v, str): return VStr(v)
        if isinstance(v, bytes): return self.bytes_const(v)
        if v is Ellipsis: return NONE
        raise Unsupported("constant")

    def bytes_const(self, v):
        h = self.ext.get("bytes_const")
        if h: return h(self, v)
        r = VStr(v.decode("latin-1")); r.is_bytes = True       # A-str: bytes are sequences of code units
        return r

    def e_Name(self, n, st):
        if n.id in st.env: return st.env[n.id]
        return self.global_name(n.id, st, n)

    def global_name(self, name, st, node=None):
        w = self.w
        if name in self.ext_names: return self.ext_names[name]
        if name in w.classes: return VClass(name)
        if name in w.exc_parent: return VClass(name)
        if name in ("True", "False"): return VBool(z3.BoolVal(name == "True"))
        got = w.module_const(self.cur_mod, name)
        if got is not None:
            node_, mod = got
            return self.const_eval(node_, mod, st)
        if name in w.functions:
            fn, mod = w.functions[name]
            return VClosure(fn, {}, None, name)
        if name in ("int", "float", "str", "bool", "dict", "list", "tuple", "bytes", "len", "abs", "max", "min", "any", "all",
                    "next", "isinstance", "enumerate", "zip", "map", "round", "hasattr", "getattr", "set", "super", "range", "sum"):
            return VClass(name)
        raise Unsupported(f"name {name} @ {self.where(node)}")

    def const_eval(self, node, mod, st=None):
        """module-level constants: literals, tuples, dicts, simple arithmetic (re-evaluated at each use, in the current heap)"""
        saved = self.cur_mod; self.cur_mod = mod
        try:
            st = State(T, {}, st.heap if st is not None else {}, [])
            if isinstance(node, ast.Dict):
                pres, vals = {}, {}
                for k, v in zip(node.keys, node.values):
                    kk = self.ev(k, st); pres[kk.py] = T; vals[kk.py] = self.ev(v, st)
                return VDict(pres, vals)
            return self.ev(node, st)
        finally:
            self.cur_mod = saved

    # ------------------------------------------------------------------ attributes
    def e_Attribute(self, n, st):
        base = self.ev(n.value, st)
        return self.getattr_(base, n.attr, st, n)

    def getattr_(self, base, attr, st, node=None):
        if isinstance(base, VOpt):
            base = self.need(st, base, "AttributeError", node)
        if isinstance(base, VRef):
            obj = st.heap.get(base.oid)
            if obj is not None and attr in obj: return obj[attr]
            if obj is not None and "$a" in obj: return self.ext["arr_attr"](self, base, attr, st, node)
            h = self.contracts.get((base.cls, "@" + attr))
            if h is not None: return h(self, base, [], {}, st)
            found = self.w.lookup(base.cls, attr)
            if found is not None:
                fn, owner = found
                decos = self.w.decorators(fn)
                if "property" in decos: return self.call_fn(fn, [base], {}, st, owner=owner, qual=f"{owner}.{attr}")
                if "staticmethod" in self.w.decorators(fn): return VClosure(fn, {}, owner, f"{owner}.{attr}")        # no bound self
                return VClosure(fn, {"$self": base}, owner, f"{owner}.{attr}")
            for c in self.w.mro(base.cls):
                ci = self.w.classes.get(c)
                if ci and attr in ci.consts: return self.const_eval(ci.consts[attr], ci.module)
            raise Unsupported(f"field {base.cls}.{attr} @ {self.where(node)}")
        if isinstance(base, VPoint):
            if attr in ("x", "y", "z"): return getattr(base, attr)
            found = self.w.lookup("Point", attr)
            if found: return VClosure(found[0], {"$self": base}, "Point", f"Point.{attr}")
        if isinstance(base, VClass):
            ci = self.w.classes.get(base.name)
            if ci is not None:
                if ci.is_enum and any(m == attr for m, _ in ci.members):
                    return VEnum(base.name, z3.IntVal(self.w.enum_index(base.name, attr)))
                found = self.w.lookup(base.name, attr)
                if found:
                    fn, owner = found
                    decos = self.w.decorators(fn)
                    if "classmethod" in decos: return VClosure(fn, {"$self": base}, owner, f"{owner}.{attr}")
                    return VClosure(fn, {}, owner, f"{owner}.{attr}")
                for c in self.w.mro(base.name):
                    cj = self.w.classes.get(c)
                    if cj and attr in cj.consts: return self.const_eval(cj.consts[attr], cj.module)
        if isinstance(base, VEnum):
            h = self.contracts.get((base.cls, "@" + attr))
            if h is not None: return h(self, base, [], {}, st)
            if attr == "value":
                vals = [v for _, v in self.w.enum_members(base.cls)]
                t = z3.StringVal(vals[-1])
                for i in range(len(vals) - 2, -1, -1): t = ITE(base.idx == i, z3.StringVal(vals[i]), t)
                t = simp(t)
                r = VStr(t.as_string(), None) if z3.is_string_value(t) else VStr(None, t)
                r.enumsrc = base
                return r
            found = self.w.lookup(base.cls, attr)
            if found:
                fn, owner = found
                if "property" in self.w.decorators(fn): return self.call_fn(fn, [base], {}, st, owner=owner, qual=f"{owner}.{attr}")
                if "staticmethod" in self.w.decorators(fn): return VClosure(fn, {}, owner, f"{owner}.{attr}")        # no bound self
                return VClosure(fn, {"$self": base}, owner, f"{owner}.{attr}")
        if isinstance(base, VModule):
            h = self.ext.get(f"{base.name}.{attr}")
            if h is not None: return h if isinstance(h, SV) else VFunc(f"{base.name}.{attr}", h)
        if isinstance(base, (VStr, VDict, VList, VTuple, VOpaque, VNum, VStmt)):
            return VFunc(attr, ("method", base, attr))
        raise Unsupported(f"attr .{attr} on {type(base).__name__} @ {self.where(node)}")

    # ------------------------------------------------------------------ boolean structure
    def cond_eval(self, st, c, fa, fb):
        c = simp(c)
        if z3.is_true(c): return fa(st)
        if z3.is_false(c): return fb(st)
        sa, sb = st.fork(c), st.fork(NOT(c))
        va = fa(sa) if not sa.dead else None
        vb = fb(sb) if not sb.dead else None
        j = join(c, sa, sb)
        st.take(j)
        if va is None or sa.dead: return vb if vb is not None else va
        if vb is None or sb.dead: return va
        return merge(c, va, vb)

    def e_IfExp(self, n, st):
        c = self.truth(self.ev(n.test, st), st)
        return self.cond_eval(st, c, lambda s: self.ev(n.body, s), lambda s: self.ev(n.orelse, s))

    def e_BoolOp(self, n, st):
        is_and = isinstance(n.op, ast.And)
        def go(i, s):
            v = self.ev(n.values[i], s)
            if i == len(n.values) - 1: return v
            # peephole: `x or 0` is x for a finite number x (0 and -0.0 are the same real) — keeps terms syntactically simple
            if (not is_and and i == len(n.values) - 2 and isinstance(n.values[i + 1], ast.Constant) and n.values[i + 1].value == 0
                    and not isinstance(n.values[i + 1].value, bool)):
                vv = v.inner if (isinstance(v, VOpt) and z3.is_false(simp(v.none))) else v
                if isinstance(vv, VNum) and z3.is_int_value(vv.sp) and vv.sp.as_long() == 0: return vv
            t = simp(self.truth(v, s))
            c = t if is_and else NOT(t)
            return self.cond_eval(s, c, lambda s2: go(i + 1, s2), lambda s2: v)
        return go(0, st)

    def e_UnaryOp(self, n, st):
        v = self.ev(n.operand, st)
        if isinstance(n.op, ast.Not): return VBool(NOT(self.truth(v, st)))
        if isinstance(n.op, ast.USub):
            if isinstance(v, VPoint): return self.call_method(v, "__neg__", [], {}, st, n)
            if isinstance(v, VOpaque): return self.opaque_op("neg", [v], st, n)
            return n_neg(self.as_num(st, v, n))
        if isinstance(n.op, ast.UAdd): return self.as_num(st, v, n)
        raise Unsupported("unary op")

    def e_BinOp(self, n, st):
        a, b = self.ev(n.left, st), self.ev(n.right, st)
        return self.binop(n.op, a, b, st, n)

    def is_arr(self, st, v): return isinstance(v, VRef) and "$a" in st.heap.get(v.oid, {})

    def binop(self, op, a, b, st, n=None):
        if self.is_arr(st, a) or self.is_arr(st, b):
            return self.ext["arr_binop"](self, op, a, b, st, n)
        if isinstance(a, VPoint) or isinstance(b, VPoint):
            name = {ast.Add: "__add__", ast.Sub: "__sub__", ast.Mult: "__mul__", ast.Div: "__truediv__"}.get(type(op))
            if name is None: raise Unsupported("point binop")
            if isinstance(a, VPoint): return self.call_method(a, name, [b], {}, st, n)
            if name == "__mul__": return self.call_method(b, "__rmul__", [a], {}, st, n)
            raise Unsupported("point right operand")
        if isinstance(a, VOpaque) or isinstance(b, VOpaque):
            return self.opaque_op(type(op).__name__, [a, b], st, n)
        if isinstance(a, VStr) and isinstance(b, VStr) and isinstance(op, ast.Add):
            if a.py is not None and b.py is not None: return VStr(a.py + b.py)
            return VStr(None, z3.Concat(a.z(), b.z()))
        if isinstance(a, VStr) and isinstance(op, ast.Mod):
            return VStr(None, fresh("fmt", z3.StringSort()))
        if isinstance(a, (VList, VTuple)) and isinstance(b, (VList, VTuple)) and isinstance(op, ast.Add):
            return type(a)(a.items + b.items)
        if isinstance(op, ast.Mult) and isinstance(a, (VTuple, VList)) and isinstance(b, VNum) and self.concrete(b) is not None:
            return type(a)(a.items * int(self.concrete(b)))
        if isinstance(op, ast.BitOr) and isinstance(a, VClass) and isinstance(b, VClass):
            return VTuple([a, b])
        if isinstance(op, ast.BitOr) and isinstance(a, VTuple) and isinstance(b, VClass):
            return VTuple(a.items + [b])
        a, b = self.as_num(st, a, n), self.as_num(st, b, n)
        if isinstance(op, ast.Add): return n_add(a, b)
        if isinstance(op, ast.Sub): return n_sub(a, b)
        if isinstance(op, ast.Mult): return n_mul(a, b)
        if isinstance(op, ast.Div):
            self.raise_if(st, AND(b.finite, b.val == 0), "ZeroDivisionError", n)
            return n_div(a, b)
        if isinstance(op, ast.Pow):
            ca, cb = self.concrete(a), self.concrete(b)
            if ca is not None and cb is not None: return num(ca ** cb)
            if cb == 2: return n_mul(a, a)
            h = self.ext.get("pow")
            if h: return h(self, [a, b], {}, st, n)
            raise Unsupported("pow")
        if isinstance(op, (ast.BitOr, ast.BitAnd)):
            ca, cb = self.concrete(a), self.concrete(b)
            if isinstance(ca, int) and isinstance(cb, int): return num(ca | cb if isinstance(op, ast.BitOr) else ca & cb)
            raise Unsupported("bit or/and on symbolic operands")
        if isinstance(op, ast.BitXor):
            h = self.ext.get("bitxor")
            if h: return h(self, a, b, st)
            raise Unsupported("bit xor")
        if isinstance(op, (ast.FloorDiv, ast.Mod)):
            ca, cb = self.concrete(a), self.concrete(b)
            if ca is not None and cb is not None and cb != 0:
                return num(ca // cb if isinstance(op, ast.FloorDiv) else ca % cb)
            h = self.ext.get("floordiv" if isinstance(op, ast.FloorDiv) else "mod")
            if h: return h(self, a, b, st)
            if cb is not None and cb != 0:
                # x // c and x % c for a concrete non-zero c over the exact reals: floor(x / c) and x − c·floor(x / c) (python's sign convention: the
                # remainder takes the sign of the divisor); a non-finite float x gives nan
                cq = z3.RealVal(str(Fraction(cb)))
                q = z3.ToReal(z3.ToInt(a.val / cq))
                sp = z3.If(a.finite, z3.IntVal(0), z3.IntVal(1))
                isint = bool(a.isint and b.isint)
                return VNum(simp(sp), q if isinstance(op, ast.FloorDiv) else a.val - cq * q, isint)
            raise Unsupported("floordiv/mod")
        raise Unsupported(f"binop {type(op).__name__}")

    def concrete(self, v):
        """python number if v is a concrete finite VNum"""
        if isinstance(v, VNum) and z3.is_int_value(v.sp) and v.sp.as_long() == 0:
            s = simp(v.val)
            if z3.is_rational_value(s):
                fr = Fraction(s.numerator_as_long(), s.denominator_as_long())
                if v.isint and fr.denominator == 1: return int(fr)
                return float(fr) if not (v.isint and fr.denominator == 1) else int(fr)
        return None

    def opaque_op(self, op, args, st, n):
        for a in args:
            if isinstance(a, VOpaque):
                h = self.opaque_ops.get(a.sort)
                if h: return h(self, op, args, st, n)
        raise Unsupported(f"opaque op {op} @ {self.where(n)}")

    # ------------------------------------------------------------------ comparisons
    def eq(self, a, b, st):
        if isinstance(a, VNone) and isinstance(b, VNone): return T
        if isinstance(a, (VOpt, VNone)) or isinstance(b, (VOpt, VNone)):
            a, b = as_opt(a), as_opt(b)
            both = self.eq(a.inner, b.inner, st) if a.inner is not None and b.inner is not None else F
            return OR(AND(a.none, b.none), AND(NOT(a.none), NOT(b.none), both))
        if isinstance(a, VBool) and isinstance(b, VNum): a = self.as_num(st, a)
        if isinstance(b, VBool) and isinstance(a, VNum): b = self.as_num(st, b)
        if isinstance(a, VNum) and isinstance(b, VNum): return n_eq(a, b)
        if isinstance(a, VEnum) and isinstance(b, VEnum): return a.idx == b.idx if a.cls == b.cls else F
        if isinstance(a, VEnum) and isinstance(b, VStr):
            if b.py is not None:
                vals = [v for _, v in self.w.enum_members(a.cls)]
                return OR(*[a.idx == i for i, v in enumerate(vals) if v == b.py])
            return self.getattr_(a, "value", st).z() == b.z()
        if isinstance(a, VStr) and isinstance(b, VEnum): return self.eq(b, a, st)
        if isinstance(a, VBool) and isinstance(b, VBool): return a.t == b.t
        if isinstance(a, VStr) and isinstance(b, VStr):
            if a.py is not None and b.py is not None: return z3.BoolVal(a.py == b.py)
            return a.z() == b.z()
        if isinstance(a, VPoint) and isinstance(b, VPoint): return self.truth(self.call_method(a, "__eq__", [b], {}, st), st)
        if isinstance(a, (VTuple, VList)) and isinstance(b, (VTuple, VList)):
            if type(a) != type(b) or len(a.items) != len(b.items): return F
            return AND(*[self.eq(x, y, st) for x, y in zip(a.items, b.items)])
        if isinstance(a, VRef) and isinstance(b, VRef): return z3.BoolVal(a.oid == b.oid)
        if isinstance(a, VOpaque) and isinstance(b, VOpaque) and a.sort == b.sort:
            h = self.opaque_eq.get(a.sort)
            return h(a, b) if h else a.term == b.term
        if isinstance(a, VOpaque) or isinstance(b, VOpaque):
            r = self.opaque_op("Eq", [a, b], st, None)
            return self.truth(r, st)
        if type(a) != type(b): return F
        raise Unsupported(f"eq {type(a).__name__}")

    def contains(self, item, cont, st, node=None):
        if isinstance(cont, VRef):
            obj = st.heap.get(cont.oid, {})
            if "$d" in obj: cont = obj["$d"]
            elif "$l" in obj: cont = obj["$l"]
            else:
                h = self.contracts.get((cont.cls, "__contains__"))
                if h: return self.truth(h(self, cont, [item], {}, st), st)
                raise Unsupported(f"in on {cont.cls}")
        if isinstance(cont, (VTuple, VList)): return OR(*[self.eq(item, it, st) for it in cont.items])
        if isinstance(cont, VDict):
            if not isinstance(item, VStr): raise Unsupported("dict key type")
            if item.py is not None:
                k = item.py.upper() if cont.upper else item.py
                return cont.present.get(k, F)
            return OR(*[AND(p, item.z() == z3.StringVal(k)) for k, p in cont.present.items()])
        if isinstance(cont, VStr) and isinstance(item, VStr):
            if cont.py is not None and item.py is not None: return z3.BoolVal(item.py in cont.py)
            return z3.Contains(cont.z(), item.z())
        if isinstance(cont, VOpaque):
            return self.truth(self.opaque_op("In", [item, cont], st, node), st)
        raise Unsupported(f"in on {type(cont).__name__} @ {self.where(node)}")

    def cmp(self, op, a, b, st, node=None):
        if isinstance(op, (ast.Is, ast.IsNot)):
            if isinstance(b, VNone): t = as_opt(a).none
            elif isinstance(a, VNone): t = as_opt(b).none
            elif isinstance(a, VEnum) and isinstance(b, VEnum): t = a.idx == b.idx if a.cls == b.cls else F
            elif isinstance(a, VBool) and isinstance(b, VBool): t = a.t == b.t
            elif isinstance(b, VBool): t = F if not isinstance(a, VOpt) else AND(NOT(a.none), self.cmp(op if isinstance(op, ast.Is) else ast.Is(), a.inner, b, st)) if isinstance(a.inner, VBool) else F
            elif isinstance(a, VRef) and isinstance(b, VRef): t = z3.BoolVal(a.oid == b.oid)
            elif isinstance(a, VOpaque) and isinstance(b, VOpaque): t = self.eq(a, b, st)
            else: raise Unsupported(f"is {type(a).__name__}/{type(b).__name__} @ {self.where(node)}")
            return t if isinstance(op, ast.Is) else NOT(t)
        if isinstance(op, (ast.In, ast.NotIn)):
            t = self.contains(a, b, st, node)
            return t if isinstance(op, ast.In) else NOT(t)
        if isinstance(op, ast.Eq): return self.eq(a, b, st)
        if isinstance(op, ast.NotEq): return NOT(self.eq(a, b, st))
        if isinstance(a, VPoint):
            name = {ast.Lt: "__lt__", ast.GtE: "__ge__", ast.Gt: "__gt__", ast.LtE: "__le__"}[type(op)]
            return self.truth(self.call_method(a, name, [b], {}, st, node), st)
        if isinstance(a, VOpaque) or isinstance(b, VOpaque):
            return self.truth(self.opaque_op(type(op).__name__, [a, b], st, node), st)
        a, b = self.as_num(st, a, node), self.as_num(st, b, node)
        if isinstance(op, ast.Lt): return n_lt(a, b)
        if isinstance(op, ast.LtE): return n_le(a, b)
        if isinstance(op, ast.Gt): return n_lt(b, a)
        if isinstance(op, ast.GtE): return n_le(b, a)
        raise Unsupported("cmp op")

    def e_Compare(self, n, st):
        left = self.ev(n.left, st)
        if len(n.ops) == 1:
            return VBool(simp(self.cmp(n.ops[0], left, self.ev(n.comparators[0], st), st, n)))
        def go(i, s, left):
            right = self.ev(n.comparators[i], s)
            t = simp(self.cmp(n.ops[i], left, right, s, n))
            if i == len(n.ops) - 1: return VBool(t)
            return self.cond_eval(s, t, lambda s2: go(i + 1, s2, right), lambda s2: VBool(F))
        return go(0, st, left)

    # ------------------------------------------------------------------ displays
    def e_Tuple(self, n, st): return VTuple(self.seq_items(n.elts, st))
    def e_List(self, n, st): return st.alloc("list", {"$l": VList(self.seq_items(n.elts, st))})

    def seq_items(self, elts, st):
        out = []
        for e in elts:
            if isinstance(e, ast.Starred): out += self.unpack(self.ev(e.value, st), st, e)
            else: out.append(self.ev(e, st))
        return out

    def unpack(self, v, st, node=None):
        """iterable -> list of values (concrete length)"""
        if isinstance(v, VOpt): v = self.need(st, v, "TypeError", node)
        if isinstance(v, VPoint): return [v.x, v.y, v.z]
        if isinstance(v, (VTuple, VList)): return list(v.items)
        if isinstance(v, VRef):
            obj = st.heap.get(v.oid, {})
            if "$l" in obj: return list(obj["$l"].items)
            if "$a" in obj: return [c if not isinstance(c, list) else st.alloc("ndarray", {"$a": list(c)}) for c in obj["$a"]]
        raise Unsupported(f"unpack {type(v).__name__} @ {self.where(node)}")

    def e_Dict(self, n, st):
        d = VDict({}, {})
        for k, v in zip(n.keys, n.values):
            if k is None:
                src = self.dict_of(st, self.ev(v, st))
                for kk in src.present:
                    self.dict_set(d, kk, src.vals[kk], src.present[kk])
            else:
                kk = self.ev(k, st)
                if isinstance(kk, VEnum) and z3.is_int_value(simp(kk.idx)): kk = VStr(f"{kk.cls}#{simp(kk.idx).as_long()}")
                if not (isinstance(kk, VStr) and kk.py is not None): raise Unsupported("non-concrete dict key")
                self.dict_set(d, kk.py, self.ev(v, st), T)
        return st.alloc("dict", {"$d": d})

    def dict_set(self, d, k, v, guard=T):
        """d[k] = v under guard (in place on the VDict value)"""
        if d.upper: k = k.upper()
        if k in d.present and not z3.is_true(guard):
            old = d.vals[k]
            try: d.vals[k] = merge(guard, v, old)
            except Unsupported:
                if z3.is_false(simp(d.present[k])): d.vals[k] = v
                else: raise
            d.present[k] = simp(OR(d.present[k], guard))
        else:
            # python dict keeps the original position on overwrite; VDict order = first insertion
            if k in d.present:
                d.present[k] = T if z3.is_true(guard) else simp(OR(d.present[k], guard)); d.vals[k] = v
            else:
                d.present[k] = guard; d.vals[k] = v

    def dict_of(self, st, v, node=None):
        if isinstance(v, VOpt): v = self.need(st, v, "TypeError", node)
        if isinstance(v, VDict): return v
        if isinstance(v, VRef) and "$d" in st.heap.get(v.oid, {}): return st.heap[v.oid]["$d"]
        raise Unsupported(f"dict expected, got {type(v).__name__} @ {self.where(node)}")

    def e_JoinedStr(self, n, st):
        parts = []
        for p in n.values:
            if isinstance(p, ast.Constant): parts.append(VStr(p.value))
            else:
                v = self.ev(p.value, st)
                if p.format_spec is not None:
                    spec = self.ev(p.format_spec, st)
                    v = self.format_value(v, spec, st, p)
                elif p.conversion == 114:   # !r
                    v = VStr(None, fresh("repr", z3.StringSort()))
                parts.append(v)
        return self.join_parts(parts, st, n)

    def format_value(self, v, spec, st, node):
        h = self.ext.get("format_value")
        if h: return h(self, v, spec, st, node)
        return VStr(None, fresh("fmt", z3.StringSort()))

    def join_parts(self, parts, st, node):
        if any(isinstance(p, VStmt) for p in parts):
            h = self.ext.get("join_stmt")
            if h: return h(self, parts, st, node)
            raise Unsupported("statement join")
        if all(isinstance(p, VStr) and p.py is not None for p in parts): return VStr("".join(p.py for p in parts))
        if self.string_mode:
            zs = [self.to_str(p, st, node).z() for p in parts]
            return VStr(None, z3.Concat(*zs) if len(zs) > 1 else zs[0])
        return VStr(None, fresh("msg", z3.StringSort()))

    def to_str(self, v, st, node=None):
        if isinstance(v, VStr): return v
        h = self.ext.get("str")
        if h: return h(self, v, st, node)
        return VStr(None, fresh("str", z3.StringSort()))

    def e_Subscript(self, n, st):
        base = self.ev(n.value, st)
        if self.is_arr(st, base): return self.ext["arr_load"](self, base, n.slice, st, n)
        if isinstance(n.slice, ast.Slice):
            lo = self.ev(n.slice.lower, st) if n.slice.lower else None
            hi = self.ev(n.slice.upper, st) if n.slice.upper else None
            return self.slice_(base, lo, hi, st, n)
        idx = self.ev(n.slice, st)
        return self.index_(base, idx, st, n)

    def slice_(self, base, lo, hi, st, n):
        base = self.need(st, base, "TypeError", n) if isinstance(base, (VOpt, VNone)) else base
        clo = self.concrete(lo) if lo is not None else None
        chi = self.concrete(hi) if hi is not None else None
        if isinstance(base, VPoint):
            if lo is None and chi == 3: return base
            return VTuple(base.items()[clo:chi])
        if isinstance(base, VRef) and "$l" in st.heap.get(base.oid, {}) and any(isinstance(i, tuple) for i in st.heap[base.oid]["$l"].items):
            g = [(i[1], i[2]) if isinstance(i, tuple) else (T, i) for i in st.heap[base.oid]["$l"].items]
            out = []
            if lo is None and chi == -1:
                for k, (p, v) in enumerate(g):
                    later = OR(*[q for q, _ in g[k + 1:]])
                    out.append(("$g", simp(AND(p, later)), v))           # present and not the last present one
            elif clo == 1 and hi is None:
                for k, (p, v) in enumerate(g):
                    earlier = OR(*[q for q, _ in g[:k]])
                    out.append(("$g", simp(AND(p, earlier)), v))         # present and not the first present one
            else: raise Unsupported("only [:-1] and [1:] are supported on a list with guarded elements")
            return st.alloc("list", {"$l": VList(out)})
        if isinstance(base, VRef) and "$l" in st.heap.get(base.oid, {}):
            if (lo is None or clo is not None) and (hi is None or chi is not None):
                return st.alloc("list", {"$l": VList(st.heap[base.oid]["$l"].items[clo:chi])})
        if isinstance(base, (VTuple, VList)) and (lo is None or clo is not None) and (hi is None or chi is not None):
            return type(base)(base.items[clo:chi])
        if isinstance(base, VStr):
            if base.py is not None and (lo is None or clo is not None) and (hi is None or chi is not None): return VStr(base.py[clo:chi])
            s = base.z(); L = z3.Length(s)
            def bound(v, c, default):
                """python slice bound -> z3 Int clamped to [0, len] (negative = from the end)"""
                if v is None: return default
                t = z3.IntVal(c) if c is not None else z3.ToInt(self.as_num(st, v, n).val)
                t = z3.If(t < 0, t + L, t)
                return z3.If(t < 0, z3.IntVal(0), z3.If(t > L, L, t))
            a, b = bound(lo, clo, z3.IntVal(0)), bound(hi, chi, L)
            return VStr(None, simp(z3.SubString(s, a, z3.If(b - a < 0, z3.IntVal(0), b - a))))
        if isinstance(base, VOpaque):
            return self.opaque_op("Slice", [base, lo, hi], st, n)
        raise Unsupported(f"slice of {type(base).__name__} @ {self.where(n)}")

    def index_(self, base, idx, st, n):
        if isinstance(base, (VOpt, VNone)): base = self.need(st, base, "TypeError", n)
        if isinstance(base, VRef):
            obj = st.heap.get(base.oid, {})
            if "$d" in obj:
                h = self.contracts.get((base.cls, "__getitem__"))
                if h: return h(self, base, [idx], {}, st)
                if base.cls == "ParamsDict": return self.dict_get(obj["$d"], idx, NONE, st)
                return self.dict_getitem(obj["$d"], idx, st, n)
            if "$l" in obj: base = obj["$l"]
            else:
                h = self.contracts.get((base.cls, "__getitem__"))
                if h: return h(self, base, [idx], {}, st)
        if isinstance(base, VDict): return self.dict_getitem(base, idx, st, n)
        if isinstance(base, VList) and any(isinstance(i, tuple) for i in base.items):
            ci = self.concrete(idx)
            if ci != -1: raise Unsupported("only [-1] is supported on a list with guarded elements")
            g = [(i[1], i[2]) if isinstance(i, tuple) else (T, i) for i in base.items]
            self.raise_if(st, NOT(OR(*[p for p, _ in g])), "IndexError", n)
            res = g[0][1]
            for p, v in g[1:]: res = merge(simp(p), v, res)       # the last present element
            return res
        if isinstance(base, (VTuple, VList)):
            ci = self.concrete(idx)
            if ci is None: raise Unsupported(f"symbolic index @ {self.where(n)}")
            if not -len(base.items) <= ci < len(base.items):
                self.raise_if(st, T, "IndexError", n); return NONE
            return base.items[ci]
        if isinstance(base, VPoint):
            ci = self.concrete(idx)
            if ci is None: raise Unsupported("symbolic point index")
            return base.items()[ci]
        if isinstance(base, VOpaque): return self.opaque_op("Index", [base, idx], st, n)
        raise Unsupported(f"subscript of {type(base).__name__} @ {self.where(n)}")

    def dict_getitem(self, d, key, st, n=None):
        if isinstance(key, VEnum) and z3.is_int_value(simp(key.idx)): key = VStr(f"{key.cls}#{simp(key.idx).as_long()}")
        if not (isinstance(key, VStr) and key.py is not None):
            if isinstance(key, VStr):
                # symbolic key over a concrete-key dict: case split
                res, guard_any = None, F
                for k, p in d.present.items():
                    g = AND(p, key.z() == z3.StringVal(k))
                    res = d.vals[k] if res is None else merge(g, d.vals[k], res); guard_any = OR(guard_any, g)
                self.raise_if(st, NOT(guard_any), "KeyError", n)
                return res if res is not None else NONE
            raise Unsupported("dict key")
        k = key.py.upper() if d.upper else key.py
        if k not in d.present:
            self.raise_if(st, T, "KeyError", n); return NONE
        self.raise_if(st, NOT(d.present[k]), "KeyError", n)
        return d.vals[k]

    def dict_get(self, d, key, default, st):
        if not (isinstance(key, VStr) and key.py is not None): raise Unsupported("dict.get key")
        k = key.py.upper() if d.upper else key.py
        if k not in d.present: return default
        return merge(simp(d.present[k]), d.vals[k], default)

    def e_Lambda(self, n, st):
        fn = ast.FunctionDef(name="<lambda>", args=n.args, body=[ast.Return(value=n.body)], decorator_list=[], returns=None, type_comment=None, type_params=[])
        ast.copy_location(fn, n); ast.fix_missing_locations(fn)
        return VClosure(fn, dict(st.env), st.env.get("__class__"), self.cur_qual + ".<lambda>")

    def e_Starred(self, n, st): raise Unsupported("starred outside call/display")
