"""World: index of the repository source, rebuilt from /repo's working tree on every run.

Nothing here is a model of the code: it only parses the real files with `ast` and records where every
class, method, nested function, module constant, enum member and exception class lives, together with a
sha256 of each function's `ast.dump` (reported in the evidence so a reader can see which text was verified).
"""
import ast, hashlib, os, sys

REPO = os.environ.get("GSCRIB_REPO", "/repo")

BUILTIN_EXC = {
    "BaseException": None, "Exception": "BaseException", "ValueError": "Exception", "TypeError": "Exception",
    "KeyError": "LookupError", "IndexError": "LookupError", "LookupError": "Exception",
    "ZeroDivisionError": "ArithmeticError", "ArithmeticError": "Exception", "OverflowError": "ArithmeticError",
    "AttributeError": "Exception", "RuntimeError": "Exception", "OSError": "Exception", "IOError": "Exception",
    "UnicodeDecodeError": "ValueError", "UnicodeError": "ValueError", "StopIteration": "Exception",
    "NotImplementedError": "RuntimeError", "TimeoutError": "OSError", "ConnectionError": "OSError",
    "AssertionError": "Exception", "LinAlgError": "ValueError", "TypeCheckError": "Exception",
}


class ClassInfo:
    def __init__(self, name, module, node, bases):
        self.name, self.module, self.node, self.bases = name, module, node, bases
        self.methods = {}      # name -> FunctionDef
        self.consts = {}       # class-level simple assignments name -> ast node
        self.is_enum = False
        self.members = []      # enum: [(NAME, value)]


class World:
    def __init__(self, repo=None):
        self.repo = repo or REPO
        self.classes = {}      # simple class name -> ClassInfo (names are unique in gscrib; checked)
        self.functions = {}    # "module.func" and bare "func" -> (FunctionDef, module)
        self.consts = {}       # module -> {NAME: ast node}
        self.modules = {}      # module -> ast.Module
        self.files = {}        # module -> path
        self.exc_parent = dict(BUILTIN_EXC)
        self._load()

    # ------------------------------------------------------------------ loading
    def _load(self):
        root = os.path.join(self.repo, "gscrib")
        for dp, dn, fn in os.walk(root):
            dn[:] = [d for d in dn if d != "__pycache__"]
            for f in sorted(fn):
                if not f.endswith(".py"): continue
                path = os.path.join(dp, f)
                mod = os.path.relpath(path, self.repo)[:-3].replace(os.sep, ".")
                if mod.endswith(".__init__"): mod = mod[:-9]
                with open(path, encoding="utf-8") as fh:
                    src = fh.read()
                tree = ast.parse(src, filename=path)
                self.modules[mod] = tree; self.files[mod] = path
                self.consts[mod] = {}
                for node in tree.body:
                    if isinstance(node, ast.ClassDef): self._add_class(node, mod)
                    elif isinstance(node, ast.FunctionDef):
                        self.functions[mod + "." + node.name] = (node, mod)
                        self.functions.setdefault(node.name, (node, mod))
                    elif isinstance(node, ast.Assign) and len(node.targets) == 1 and isinstance(node.targets[0], ast.Name):
                        self.consts[mod][node.targets[0].id] = node.value
        # enum detection and exception hierarchy need all classes loaded first
        for ci in self.classes.values():
            if self.is_subclass(ci.name, "Enum") or self.is_subclass(ci.name, "BaseEnum"):
                ci.is_enum = True
                for st in ci.node.body:
                    if isinstance(st, ast.Assign) and len(st.targets) == 1 and isinstance(st.targets[0], ast.Name) \
                            and isinstance(st.value, ast.Constant):
                        ci.members.append((st.targets[0].id, st.value.value))
            if self.is_subclass(ci.name, "Exception"):
                self.exc_parent[ci.name] = ci.bases[0] if ci.bases else "Exception"

    def _add_class(self, node, mod):
        bases = []
        for b in node.bases:
            if isinstance(b, ast.Name): bases.append(b.id)
            elif isinstance(b, ast.Attribute): bases.append(b.attr)
        ci = ClassInfo(node.name, mod, node, bases)
        if node.name in self.classes and self.classes[node.name].module != mod:
            # keep the first; record the clash under a qualified name as well
            self.classes[mod + "." + node.name] = ci
        else:
            self.classes[node.name] = ci
        for st in node.body:
            if isinstance(st, ast.FunctionDef): ci.methods[st.name] = st
            elif isinstance(st, ast.Assign) and len(st.targets) == 1 and isinstance(st.targets[0], ast.Name):
                ci.consts[st.targets[0].id] = st.value

    # ------------------------------------------------------------------ queries
    def mro(self, cls):
        """linearised bases (single inheritance chains are all gscrib uses for the classes under contract)"""
        out, todo = [], [cls]
        while todo:
            c = todo.pop(0)
            if c in out: continue
            out.append(c)
            ci = self.classes.get(c)
            if ci: todo = ci.bases + todo
        return out

    def is_subclass(self, cls, base):
        if cls == base: return True
        if cls in self.exc_parent and cls not in self.classes:
            p = self.exc_parent.get(cls)
            return p is not None and self.is_subclass(p, base)
        return base in self.mro(cls)

    def exc_matches(self, raised, handler):
        """does `except handler` catch an exception of class `raised`?"""
        seen = set(); c = raised
        while c is not None and c not in seen:
            if c == handler: return True
            seen.add(c)
            ci = self.classes.get(c)
            if ci and ci.bases:
                # multiple bases: check all
                for b in ci.bases:
                    if self.exc_matches(b, handler): return True
                return False
            c = self.exc_parent.get(c)
        return False

    def lookup(self, cls, name, after=None):
        """find method `name` for class `cls` along the mro; `after`: start after that class (super())"""
        chain = self.mro(cls)
        if after is not None and after in chain: chain = chain[chain.index(after) + 1:]
        for c in chain:
            ci = self.classes.get(c)
            if ci and name in ci.methods: return ci.methods[name], c
        return None

    def decorators(self, node):
        out = []
        for d in node.decorator_list:
            if isinstance(d, ast.Name): out.append(d.id)
            elif isinstance(d, ast.Attribute): out.append(d.attr)
            elif isinstance(d, ast.Call):
                f = d.func; out.append(f.id if isinstance(f, ast.Name) else getattr(f, "attr", "?"))
        return out

    def function(self, qual):
        """'Class.method', 'Class.method.<locals>.inner' or 'module.func' -> (FunctionDef, owner class or None, module)"""
        parts = qual.split(".<locals>.")
        head = parts[0]
        if "." in head and head.split(".")[0] in self.classes:
            cname, mname = head.split(".", 1)
            found = self.lookup(cname, mname)
            if not found: raise KeyError(qual)
            node, owner = found; mod = self.classes[owner].module
        else:
            if head not in self.functions: raise KeyError(qual)
            node, mod = self.functions[head]; owner = None
        for inner in parts[1:]:
            cand = [n for n in ast.walk(node) if isinstance(n, ast.FunctionDef) and n.name == inner and n is not node]
            if not cand: raise KeyError(qual)
            node = cand[0]
        return node, owner, mod

    def fhash(self, node):
        return hashlib.sha256(ast.dump(node, include_attributes=False).encode()).hexdigest()[:16]

    def module_const(self, mod, name):
        """resolve NAME in module `mod` (own constants first, then any module: names are unique enough)"""
        if mod in self.consts and name in self.consts[mod]: return self.consts[mod][name], mod
        for m, d in self.consts.items():
            if name in d: return d[name], m
        return None

    def enum_members(self, cls):
        return self.classes[cls].members

    def enum_index(self, cls, member):
        for i, (n, v) in enumerate(self.classes[cls].members):
            if n == member: return i
        raise KeyError(f"{cls}.{member}")

    def gcode_table(self):
        """read gscrib/codes/gcode_mappings.py: {(EnumClass, MEMBER): (instruction, description)} as ground facts"""
        tree = self.modules["gscrib.codes.gcode_mappings"]
        out = {}
        for n in ast.walk(tree):
            if isinstance(n, ast.Call) and isinstance(n.func, ast.Name) and n.func.id == "GCodeEntry":
                e = n.args[0]
                if isinstance(e, ast.Attribute) and isinstance(e.value, ast.Name) and all(isinstance(a, ast.Constant) for a in n.args[1:3]):
                    out[(e.value.id, e.attr)] = (n.args[1].value, n.args[2].value)
        return out

    def stores_in_class(self, cls):
        """closure scan: {method: set(fields stored through self.<field> = / aug-assign / mutating call)}"""
        MUT = {"append", "extend", "pop", "remove", "clear", "update", "insert", "setdefault", "popitem", "sort", "reverse"}
        out = {}
        ci = self.classes[cls]
        for mname, fn in ci.methods.items():
            s = set()
            for n in ast.walk(fn):
                tgts = []
                if isinstance(n, ast.Assign): tgts = n.targets
                elif isinstance(n, (ast.AugAssign, ast.AnnAssign)): tgts = [n.target]
                elif isinstance(n, ast.Delete): tgts = n.targets
                for t in tgts:
                    for tt in ast.walk(t):
                        if isinstance(tt, ast.Attribute) and isinstance(tt.ctx, (ast.Store, ast.Del)):
                            s.add(self._attr_path(tt))
                        if isinstance(tt, ast.Subscript) and isinstance(tt.ctx, (ast.Store, ast.Del)):
                            s.add(self._attr_path(tt.value) + "[]")
                if isinstance(n, ast.Call) and isinstance(n.func, ast.Attribute) and n.func.attr in MUT:
                    s.add(self._attr_path(n.func.value) + "." + n.func.attr + "()")
            out[mname] = {x for x in s if x}
        return out

    def footprint_writers(self, fields, classes=None):
        """closure scan over the WHOLE repository: every function that stores to (or calls a mutating method on) an attribute whose name is in
        `fields`, on any object -> {qualname: sorted(list of the fields it touches)}"""
        MUT = {"append", "extend", "pop", "remove", "clear", "update", "insert", "setdefault", "popitem", "sort", "add", "discard"}
        out = {}
        def direct(attr_node):
            """self.<field> (a field of the object the method belongs to) as opposed to a field of another object reached through self"""
            return isinstance(attr_node.value, ast.Name) and attr_node.value.id in ("self", "cls")
        def scan(fn, qual, own=True):
            hit = set()
            def note(a):
                # methods of classes outside `classes` only count when they reach INTO another object (self.x.<field> = ...): their own fields that
                # merely share a name with a tracked field are not part of the footprint
                if own or not direct(a): hit.add(a.attr)
            for n in ast.walk(fn):
                tgts = []
                if isinstance(n, ast.Assign): tgts = n.targets
                elif isinstance(n, (ast.AugAssign, ast.AnnAssign)): tgts = [n.target]
                elif isinstance(n, ast.Delete): tgts = n.targets
                for t in tgts:
                    for tt in ast.walk(t):
                        if isinstance(tt, ast.Attribute) and isinstance(tt.ctx, (ast.Store, ast.Del)) and tt.attr in fields: note(tt)
                        if isinstance(tt, ast.Subscript) and isinstance(tt.ctx, (ast.Store, ast.Del)) and isinstance(tt.value, ast.Attribute) and tt.value.attr in fields: note(tt.value)
                if isinstance(n, ast.Call) and isinstance(n.func, ast.Attribute) and n.func.attr in MUT and isinstance(n.func.value, ast.Attribute) and n.func.value.attr in fields:
                    note(n.func.value)
            if hit: out[qual] = sorted(hit)
        for cname, ci in self.classes.items():
            if "." in cname: continue
            own = classes is None or any(self.is_subclass(cname, c) for c in classes)
            for mname, fn in ci.methods.items(): scan(fn, f"{cname}.{mname}", own)
        for q, (fn, mod) in self.functions.items():
            if "." in q: scan(fn, q, False)
        return out

    def _attr_path(self, n):
        parts = []
        while isinstance(n, ast.Attribute):
            parts.append(n.attr); n = n.value
        if isinstance(n, ast.Name): parts.append(n.id)
        elif isinstance(n, ast.Call): parts.append("<call>")
        else: parts.append("<expr>")
        return ".".join(reversed(parts))
