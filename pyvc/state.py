"""Symbolic program state, exits, joins (DESIGN §2.3)."""
import itertools
import z3
from .values import *

_oid = itertools.count(1)


def new_oid(): return next(_oid)


class State:
    __slots__ = ("pc", "env", "heap", "log")

    def __init__(self, pc, env, heap, log):
        self.pc, self.env, self.heap, self.log = pc, env, heap, log

    def fork(self, extra=T):
        return State(simp(AND(self.pc, extra)), dict(self.env), {k: dict(v) for k, v in self.heap.items()}, list(self.log))

    def snap(self): return {k: dict(v) for k, v in self.heap.items()}

    @property
    def dead(self): return z3.is_false(self.pc)

    def take(self, other):
        self.pc, self.env, self.heap, self.log = other.pc, other.env, other.heap, other.log

    def alloc(self, cls, fields):
        oid = new_oid(); self.heap[oid] = dict(fields); return VRef(cls, oid)


class Exit:
    __slots__ = ("kind", "cond", "payload", "heap", "log", "env", "where")

    def __init__(self, kind, cond, payload, heap, log, env=None, where=None):
        self.kind, self.cond, self.payload, self.heap, self.log, self.env, self.where = kind, cond, payload, heap, log, env, where

    def __repr__(self): return f"<Exit {self.kind} {self.payload if self.kind == 'raise' else ''} @{self.where}>"


def merge_heaps(c, h1, h2):
    heap = {}
    pending = []
    for oid in set(h1) | set(h2):
        f1, f2 = h1.get(oid), h2.get(oid)
        if f1 is None or f2 is None:
            heap[oid] = dict(f1 if f1 is not None else f2); continue
        d = {}
        for k in f1:
            if k in f2:
                a, b = f1[k], f2[k]
                if a is b: d[k] = a
                elif isinstance(a, VRef) and isinstance(b, VRef) and a.oid != b.oid and a.cls == b.cls:
                    pending.append((oid, k, a, b)); d[k] = a
                else: d[k] = merge(c, a, b)
        heap[oid] = d
    # a field that refers to different container objects in the two branches (e.g. `self.buf = []` in one of them):
    # a fresh object holding the merged contents takes their place (neither original is aliased elsewhere in the code under contract)
    for oid, k, a, b in pending:
        oa, ob = h1.get(a.oid), h2.get(b.oid)
        if oa is None or ob is None: raise Unsupported("merge distinct refs")
        key = "$l" if "$l" in oa and "$l" in ob else "$d" if "$d" in oa and "$d" in ob else None
        if key is None: raise Unsupported("merge distinct refs")
        new = new_oid()
        heap[new] = {key: merge(c, oa[key], ob[key])}
        heap[oid][k] = VRef(a.cls, new)
    return heap


def merge_logs(c, l1, l2):
    n = 0
    while n < len(l1) and n < len(l2) and l1[n] is l2[n]: n += 1
    return l1[:n] + [(simp(AND(c, g)), ev) for g, ev in l1[n:]] + [(simp(AND(NOT(c), g)), ev) for g, ev in l2[n:]]


def join(c, s1, s2):
    """merge two states that split on c (s1 under c, s2 under not c)"""
    if s1.dead: return s2
    if s2.dead: return s1
    env = {}; arrs = []
    for k in s1.env:
        if k in s2.env:
            a, b = s1.env[k], s2.env[k]
            if a is b: env[k] = a; continue
            try: env[k] = merge(c, a, b)
            except Unsupported:
                # a local bound to different array objects in the two branches (`m = a` / `m = p @ a @ q`): handled below, once the heaps are
                # merged; any other shape conflict makes the variable unusable after the join (a later read is Unsupported)
                if isinstance(a, VRef) and isinstance(b, VRef) and a.cls == b.cls: arrs.append((k, a, b))
    heap = merge_heaps(c, s1.heap, s2.heap)
    for k, a, b in arrs:
        oa, ob = s1.heap.get(a.oid), s2.heap.get(b.oid)
        if oa is None or ob is None or "$a" not in oa or "$a" not in ob: continue
        try: data = _merge_arr(c, oa["$a"], ob["$a"])
        except Unsupported: continue
        new = new_oid(); heap[new] = {"$a": data}; env[k] = VRef(a.cls, new)
    return State(simp(OR(s1.pc, s2.pc)), env, heap, merge_logs(c, s1.log, s2.log))


def _merge_arr(c, x, y):
    """element-wise merge of two array payloads (nested lists of values) of the same shape"""
    if isinstance(x, list) != isinstance(y, list): raise Unsupported("merge arrays of different rank")
    if not isinstance(x, list): return merge(c, x, y)
    if len(x) != len(y): raise Unsupported("merge arrays of different shape")
    return [_merge_arr(c, p, q) for p, q in zip(x, y)]
