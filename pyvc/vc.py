"""Obligations, discharge (z3 in-process; cvc5 CLI for z3's unknowns), models, concretisation (DESIGN §2.1, §6.1)."""
import time, subprocess, tempfile, os, json, math
from fractions import Fraction
import z3
from .values import *
from .state import State, Exit
from .executor import X

CVC5 = "/usr/bin/cvc5"


class Obl:
    def __init__(self, name, goal, assume, kind="post", exit=None, props=(), expect="valid", note=""):
        self.name, self.goal, self.assume, self.kind, self.exit, self.props, self.expect, self.note = name, goal, list(assume), kind, exit, tuple(props), expect, note
        self.status = None; self.backend = None; self.seconds = 0.0; self.model = None; self.reason = ""


def solve(constraints, timeout_ms=20000, want_model=True, strings=False, seed=0):
    """-> (result 'sat'|'unsat'|'unknown', model|None, seconds, backend)"""
    t0 = time.time()
    # stage 1: nonlinear products treated as uninterpreted (sound for 'unsat'); most obligations are linear or match syntactically
    s1 = z3.Solver(); s1.set("timeout", min(timeout_ms, 5000)); s1.set("arith.nl", False)
    s1.add(*constraints)
    if s1.check() == z3.unsat: return "unsat", None, time.time() - t0, "z3(linear)"
    s = z3.Solver()
    s.set("timeout", timeout_ms)
    if seed: s.set("random_seed", seed)
    s.add(*constraints)
    smt = None
    is_str = False
    try:
        smt = s.to_smt2(); is_str = ("str." in smt) or ("String" in smt)
    except Exception: pass
    if is_str:
        # string obligations: cvc5 (--strings-exp) decides what z3's sequence solver leaves open; z3 first with a short budget
        s.set("timeout", min(timeout_ms, 3000))
        r = s.check()
        if r == z3.unsat: return "unsat", None, time.time() - t0, "z3"
        if r == z3.sat: return "sat", (s.model() if want_model else None), time.time() - t0, "z3"
        try:
            r2, out = run_cvc5(smt, timeout_ms, True)
            if r2 == "unsat": return "unsat", None, time.time() - t0, "cvc5"
            if r2 == "sat":
                m = model_from_cvc5(smt, out) if want_model else None
                if m is not None: return "sat", m, time.time() - t0, "cvc5(model checked by z3)"
                s.set("timeout", timeout_ms)
                if s.check() == z3.sat: return "sat", (s.model() if want_model else None), time.time() - t0, "cvc5+z3"
                return "sat", None, time.time() - t0, "cvc5"
        except Exception: pass
        s.set("timeout", timeout_ms)
    r = s.check()
    dt = time.time() - t0
    if r == z3.unsat: return "unsat", None, dt, "z3"
    if r == z3.sat: return "sat", (s.model() if want_model else None), dt, "z3"
    if not is_str and smt is not None:
        try:
            r2, out = run_cvc5(smt, timeout_ms, True)
            dt = time.time() - t0
            if r2 == "unsat": return "unsat", None, dt, "cvc5"
            if r2 == "sat":
                m = model_from_cvc5(smt, out) if want_model else None
                return "sat", m, time.time() - t0, "cvc5" + ("(model checked by z3)" if m is not None else "")
        except Exception: pass
    return "unknown", None, time.time() - t0, "z3+cvc5"


def run_cvc5(smt2, timeout_ms, strings=False):
    with tempfile.NamedTemporaryFile("w", suffix=".smt2", delete=False, dir=os.environ.get("TMPDIR", "/tmp")) as f:
        txt = smt2
        if "(set-logic" not in txt: txt = "(set-logic ALL)\n" + txt
        if "(get-model)" not in txt: txt += "\n(get-model)\n"
        f.write(txt); path = f.name
    try:
        cmd = [CVC5, f"--tlimit={timeout_ms}", "--strings-exp", "--produce-models"]
        p = subprocess.run(cmd + [path], capture_output=True, text=True, timeout=timeout_ms / 1000 + 10)
        out = p.stdout.strip().splitlines()
        res = out[0].strip() if out else "unknown"
        return (res if res in ("sat", "unsat") else "unknown"), p.stdout + p.stderr
    finally:
        os.unlink(path)


_DEF = __import__("re").compile(r"^\(define-fun (\|[^|]*\||\S+) \(\) (Int|Real|Bool|String) (.*)\)\s*$")


def model_from_cvc5(smt2, cvc5_out, timeout_ms=10000):
    """cvc5 answered sat: read the constants of its model, pin them in the ORIGINAL query and let z3 evaluate it; the z3 model is
    returned only if z3 confirms that the pinned query is satisfiable (so a counterexample is never taken on cvc5's word alone)"""
    pins = []
    for ln in cvc5_out.splitlines():
        m = _DEF.match(ln.strip())
        if m: pins.append(f"(assert (= {m.group(1)} {m.group(3)}))")
    if not pins: return None
    try:
        body = smt2.replace("(check-sat)", "")
        fs = z3.parse_smt2_string(body + "\n" + "\n".join(pins))
        s = z3.Solver(); s.set("timeout", timeout_ms); s.add(*fs)
        if s.check() == z3.sat: return s.model()
    except Exception:
        return None
    return None


# ---------------------------------------------------------------------------------------------- concretisation
def mval(model, t):
    return model.eval(t, model_completion=True)


def c_real(model, t):
    v = mval(model, t)
    if z3.is_rational_value(v): return Fraction(v.numerator_as_long(), v.denominator_as_long())
    if z3.is_algebraic_value(v):
        a = v.approx(30); return Fraction(a.numerator_as_long(), a.denominator_as_long())
    if z3.is_int_value(v): return Fraction(v.as_long())
    raise ValueError(f"non-numeric model value {v}")


def zstr_py(txt):
    """z3 prints non-printable code units of a string value as \\u{hex}: back to the python string"""
    import re
    return re.sub(r"\\u\{([0-9a-fA-F]+)\}", lambda m: chr(int(m.group(1), 16)), txt)


def c_bool(model, t):
    if t is True or t is False: return t
    return z3.is_true(mval(model, t))


def concretize(model, v, heap=None, world=None, enum_lookup=None):
    """symbolic value -> python value under model (VRef -> ('ref', cls, oid))"""
    if isinstance(v, VNone) or v is None: return None
    if isinstance(v, VBool): return c_bool(model, v.t)
    if isinstance(v, VNum):
        sp = mval(model, v.sp).as_long()
        if sp == 1: return float("nan")
        if sp == 2: return float("inf")
        if sp == 3: return float("-inf")
        fr = c_real(model, v.val)
        if v.isint is True and fr.denominator == 1: return int(fr)
        return float(fr)
    if isinstance(v, VOpt):
        if c_bool(model, v.none) or v.inner is None: return None
        return concretize(model, v.inner, heap, world, enum_lookup)
    if isinstance(v, VEnum):
        i = mval(model, v.idx).as_long()
        return enum_lookup(v.cls, i) if enum_lookup else (v.cls, i)
    if isinstance(v, VStr):
        if v.py is not None: return v.py
        s = mval(model, v.term)
        return zstr_py(s.as_string()) if z3.is_string_value(s) else str(s)
    if isinstance(v, VPoint):
        from gscrib.geometry.point import Point
        return Point(*[concretize(model, c, heap, world, enum_lookup) for c in v.items()])
    if isinstance(v, VTuple): return tuple(concretize(model, c, heap, world, enum_lookup) for c in v.items)
    if isinstance(v, VList): return [concretize(model, c, heap, world, enum_lookup) for c in v.items]
    if isinstance(v, VDict):
        return {k: concretize(model, v.vals[k], heap, world, enum_lookup) for k in v.present if c_bool(model, v.present[k])}
    if isinstance(v, VRef):
        if heap is not None and "$d" in heap.get(v.oid, {}): return concretize(model, heap[v.oid]["$d"], heap, world, enum_lookup)
        if heap is not None and "$l" in heap.get(v.oid, {}): return concretize(model, heap[v.oid]["$l"], heap, world, enum_lookup)
        return ("ref", v.cls, v.oid)
    if isinstance(v, VStmt):
        return {"cmds": [concretize(model, c) for c in v.cmds],
                "params": concretize(model, v.params, heap, world, enum_lookup) if v.params is not None else {},
                "has_comment": c_bool(model, v.has_comment)}
    if isinstance(v, VOpaque): return ("opaque", v.sort, str(mval(model, v.term)))
    if isinstance(v, VExc): return ("exc", v.cls)
    return repr(v)


def same_py(a, b, tol=0.0):
    """compare python values (NaN == NaN, ints and floats by value)"""
    if isinstance(a, float) and isinstance(b, (int, float)) or isinstance(b, float) and isinstance(a, (int, float)):
        if isinstance(a, bool) or isinstance(b, bool): return a == b
        if a != a or b != b: return a != a and b != b
        if a == b: return True
        return tol > 0 and abs(a - b) <= tol * max(1.0, abs(a), abs(b))
    if isinstance(a, (tuple, list)) and isinstance(b, (tuple, list)):
        return len(a) == len(b) and all(same_py(x, y, tol) for x, y in zip(a, b))
    if isinstance(a, dict) and isinstance(b, dict):
        return set(a) == set(b) and all(same_py(a[k], b[k], tol) for k in a)
    return a == b


def nice_model(constraints, model, real_vars, timeout_ms=5000):
    """try to move every real-valued input to a value exactly representable as a double (so that the native replay runs
    on the very inputs the model describes); falls back to the original model"""
    fixed = []
    t_end = time.time() + 6.0
    s = z3.Solver(); s.set("timeout", 1500); s.add(*constraints)
    for v in real_vars:
        if time.time() > t_end: break
        try: fr = c_real(model, v)
        except Exception: continue
        cand = Fraction(float(fr))
        s.push(); s.add(v == z3.Q(cand.numerator, cand.denominator))
        if s.check() == z3.sat:
            model = s.model()        # keep the constraint
        else:
            s.pop()
            if time.time() > t_end: break
    return model
