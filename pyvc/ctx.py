"""Unit context: one function (or one composite obligation group) under contract.

A *unit* is a python function in /verif/specs that builds a symbolic pre-state, runs the real function through the
executor and states clauses with ctx.check(...).  Every clause becomes one SMT query per exit:  assume ∧ exit.cond ∧ ¬goal.
"""
import time, traceback, json, os
import z3
from .values import *
from .state import State, Exit
from .executor import X
from . import vc


class UnitResult:
    def __init__(self, unit):
        self.unit = unit
        self.obligations = []     # dicts
        self.functions = {}       # qual -> hash
        self.inlined = []
        self.error = None         # engine failure (Unsupported / traceback): undecided, never a violation
        self.seconds = 0.0
        self.trusted = []
        self.known = []           # known-finding ids confirmed present
        self.exec_seconds = 0.0


class Ctx:
    def __init__(self, world, unit, tier="quick", seed=0, known_ids=()):
        self.w, self.unit, self.tier, self.seed = world, unit, tier, seed
        self.assumes = []
        self.obls = []
        self.res = UnitResult(unit.name)
        self.replayer = None
        self.known_ids = set(known_ids)
        self.timeout_ms = 30000 if tier == "quick" else 120000
        self.trusted = set()
        self.input_reals = []
        self.default_hint = None      # witness region tried when a validity query comes back unknown (finds counterexamples in hard arithmetic)

    # ------------------------------------------------------------------ building
    def executor(self, **kw):
        from specs import common
        x = X(self.w, assume=self.assumes)
        common.install(x, self)
        for k, v in kw.items(): setattr(x, k, v)
        self._x = x; x.ctx = self
        return x

    def assume(self, *fs):
        for f in fs:
            if f is None or f is True or (isinstance(f, z3.ExprRef) and z3.is_true(f)): continue
            self.assumes.append(f)

    def trust(self, *names):
        self.trusted.update(names)

    def under_contract(self, qual):
        node, owner, mod = self.w.function(qual)
        self.res.functions[qual] = self.w.fhash(node)

    def run(self, x, qual, args, kwargs, st, closure=None, split_returns=False):
        self.under_contract(qual)
        t0 = time.time()
        x.assume = self.assumes
        exits = x.run(qual, args, kwargs, st, closure=closure, split_returns=split_returns)
        self.res.exec_seconds += time.time() - t0
        self.res.inlined = sorted(set(self.res.inlined) | x.inlined)
        for q in x.inlined:
            try:
                node, owner, mod = self.w.function(q); self.res.functions.setdefault(q, self.w.fhash(node))
            except Exception: pass
        return exits

    # ------------------------------------------------------------------ clauses
    def check(self, name, goal, exit=None, props=None, kind="post", known=None, note=""):
        """goal must hold on `exit` (or globally). known: (finding_id, region formula) — the clause is proved outside the
        region and the finding is confirmed inside it."""
        props = props or self.unit.props
        pre = list(self.assumes) + ([exit.cond] if exit is not None else [])
        if known:
            if isinstance(known, tuple): known = [known]
            for kid, region in known:
                if kid not in self.known_ids: raise RuntimeError(f"known-finding id {kid} is not listed in known_findings.json")
            union = OR(*[r for _, r in known])
            o = vc.Obl(name, goal, pre + [NOT(union)], kind, exit, props, "valid", note + f" [outside known findings {[k for k, _ in known]}]")
            self.obls.append(o)
            for kid, region in known:
                k = vc.Obl(name + "#known:" + kid, goal, pre + [region], "known", exit, props, "invalid", kid)
                self.obls.append(k)
        else:
            self.obls.append(vc.Obl(name, goal, pre, kind, exit, props, "valid", note))

    def lemma(self, name, hyps, goal, props=None):
        """a lemma instance: proved on its own from `hyps` only (small query), then available to every later obligation"""
        self.obls.append(vc.Obl(name, goal, list(hyps), "lemma", None, props or self.unit.props, "valid", "lemma instance"))
        self.assumes.append(IMP(AND(*hyps), goal))

    def cover(self, name, cond, exit=None, props=None, hint=None):
        """reachability: pre ∧ exit ∧ cond must be satisfiable.  hint: extra constraints that pin a witness region (a cover that is
        satisfiable under the hint is satisfiable), used where the general query is hard non-linear arithmetic"""
        pre = list(self.assumes) + ([exit.cond] if exit is not None else []) + list(hint or [])
        self.obls.append(vc.Obl(name, NOT(cond), pre, "cover", exit, props or self.unit.props, "invalid"))

    def canary(self, name, goal, exit=None, props=None, hint=None):
        """a deliberately false clause: the engine must refute it (hint: pins a witness region for hard arithmetic)"""
        pre = list(self.assumes) + ([exit.cond] if exit is not None else []) + list(hint or [])
        self.obls.append(vc.Obl(name, goal, pre, "canary", exit, props or self.unit.props, "invalid"))

    def for_exits(self, exits, kind=None, exc=None):
        for e in exits:
            if kind and e.kind != kind: continue
            if exc and e.payload != exc: continue
            yield e

    # ------------------------------------------------------------------ discharge
    def discharge(self):
        out = []
        sampled = False
        for o in self.obls:
            r, model, dt, backend = vc.solve(o.assume + [NOT(o.goal)], self.timeout_ms, seed=self.seed)
            if r == "unknown" and self.default_hint and o.expect == "valid":
                r2, model2, dt2, b2 = vc.solve(o.assume + list(self.default_hint) + [NOT(o.goal)], self.timeout_ms, seed=self.seed)
                dt += dt2
                if r2 == "sat": r, model, backend = r2, model2, b2 + "(hinted)"
            if r == "unknown":
                r, model, dt2, backend = vc.solve(o.assume + [NOT(o.goal)], self.timeout_ms * 4, seed=self.seed + 7)
                dt += dt2
            o.seconds, o.backend = dt, backend
            rec = {"name": f"{self.unit.name}/{o.kind}/{o.name}", "kind": o.kind, "props": list(o.props), "backend": backend,
                   "seconds": round(dt, 4), "where": o.exit.where if o.exit is not None else None,
                   "exit": (o.exit.kind + (":" + str(o.exit.payload) if o.exit.kind == "raise" else "")) if o.exit is not None else None}
            if not sampled and o.kind in ("post", "raises", "frame", "inv") and o.exit is not None:
                try:
                    sv = z3.Solver(); sv.add(*(o.assume + [NOT(o.goal)]))
                    txt = sv.to_smt2()
                    rec["smt2_sample"] = txt if len(txt) < 6000 else txt[:3000] + "\n; ... (" + str(len(txt)) + " characters in total) ...\n" + txt[-1500:]
                    sampled = True
                except Exception: pass
            if o.expect == "valid":
                if r == "unsat": rec["status"] = "discharged"
                elif r == "sat":
                    rec["status"] = "violated"
                    rec["replay"] = self.try_replay(o, model)
                else:
                    rec["status"] = "undecided"; rec["reason"] = "solver unknown/timeout on both back ends"
            else:   # cover / canary / known: must be satisfiable
                if r == "sat":
                    rec["status"] = "discharged"
                    if o.kind == "known":
                        rp = self.try_replay(o, model)
                        rec["replay"] = rp
                        rec["known_id"] = o.note
                        if rp is not None and rp.get("reproduced") is False:
                            rec["status"] = "undecided"; rec["reason"] = "known finding satisfiable symbolically but the native replay did not reproduce it"
                        else:
                            self.res.known.append(o.note)
                    elif o.kind == "cover" and self.replayer is not None and o.exit is not None and model is not None:
                        rp = self.try_replay(o, model, cover=True)
                        rec["differential"] = rp
                        if rp is not None and rp.get("agrees") is False:
                            rec["status"] = "engine-disagreement"; rec["reason"] = rp.get("detail", "")
                elif r == "unsat":
                    if o.kind == "known":
                        rec["status"] = "discharged"; rec["known_gone"] = o.note
                    elif o.kind == "cover":
                        rec["status"] = "vacuous"; rec["reason"] = "cover unreachable: precondition or exit is contradictory"
                    else:
                        rec["status"] = "vacuous"; rec["reason"] = "canary was proved: engine or precondition is trivially permissive"
                else:
                    rec["status"] = "undecided"; rec["reason"] = "solver unknown on a satisfiability query"
            out.append(rec)
        self.res.obligations = out
        self.res.trusted = sorted(self.trusted)
        return self.res

    def try_replay(self, o, model, cover=False):
        if self.replayer is None or model is None: return None
        try:
            cons = o.assume + [NOT(o.goal)]
            if self.input_reals:
                model = vc.nice_model(cons, model, self.input_reals)
            return self.replayer(model, o, cover)
        except Exception as e:
            return {"reproduced": None, "agrees": None, "detail": "replay harness error: " + "".join(traceback.format_exception_only(type(e), e)).strip(),
                    "trace": traceback.format_exc()[-1500:]}


class Unit:
    def __init__(self, name, fn, props, group=""):
        self.name, self.fn, self.props, self.group = name, fn, tuple(props), group


REGISTRY = []


def unit(name, props, group=""):
    def deco(fn):
        REGISTRY.append(Unit(name, fn, props, group)); return fn
    return deco


def run_unit(world, u, tier, seed, known_ids):
    t0 = time.time()
    ctx = Ctx(world, u, tier, seed, known_ids)
    try:
        u.fn(ctx)
        res = ctx.discharge()
    except Unsupported as e:
        res = ctx.res; res.error = f"Unsupported: {e}"
    except Exception as e:
        res = ctx.res; res.error = "checker error: " + traceback.format_exc()[-2500:]
    res.seconds = time.time() - t0
    return res
