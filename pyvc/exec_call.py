"""Calls, builtins, comprehensions (mixin of the executor)."""
import ast
import z3
from .values import *
from .state import State, Exit, join


class CallMixin:
    def e_Call(self, n, st):
        f = n.func
        # forms that must not evaluate their arguments eagerly
        if isinstance(f, ast.Name) and f.id not in st.env:
            if f.id == "isinstance": return self.isinstance_(self.ev(n.args[0], st), n.args[1], st, n)
            if f.id == "super": raise Unsupported("bare super()")
            if f.id in ("next", "any", "all", "sum", "list", "tuple", "set", "max", "min") and n.args and isinstance(n.args[0], (ast.GeneratorExp, ast.ListComp)):
                return self.comp_call(f.id, n, st)
        if isinstance(f, ast.Attribute) and f.attr == "join" and n.args and isinstance(n.args[0], (ast.GeneratorExp, ast.ListComp)):
            sep = self.ev(f.value, st)
            els = self.comp_elements(n.args[0], st)
            return self.str_join(sep, els, st, n)
        # logging is dropped (A-log); arguments are still evaluated for their exceptions
        if isinstance(f, ast.Attribute) and self.is_logger(f.value):
            for a in n.args:
                try: self.ev(a, st)
                except Unsupported: pass
            return NONE
        args = self.seq_items(n.args, st)
        kwargs = {}
        for k in n.keywords:
            if k.arg is None: kwargs["**"] = self.ev(k.value, st)
            else: kwargs[k.arg] = self.ev(k.value, st)
        if isinstance(f, ast.Attribute):
            if isinstance(f.value, ast.Call) and isinstance(f.value.func, ast.Name) and f.value.func.id == "super" and "super" not in st.env:
                recv = st.env.get("self", st.env.get("cls"))
                return self.call_method(recv, f.attr, args, kwargs, st, n, after=st.env["__class__"])
            recv = self.ev(f.value, st)
            return self.call_method(recv, f.attr, args, kwargs, st, n)
        fv = self.ev(f, st)
        return self.call_value(fv, args, kwargs, st, n)

    def is_logger(self, node):
        return (isinstance(node, ast.Attribute) and node.attr in ("_logger", "logger")) or (isinstance(node, ast.Name) and node.id in ("logger", "logging"))

    def call_value(self, fv, args, kwargs, st, n=None):
        if isinstance(fv, VOpt): fv = self.need(st, fv, "TypeError", n)
        if isinstance(fv, VClosure):
            env = fv.env
            if "$self" in env:
                args = [env["$self"]] + args
                env = {k: v for k, v in env.items() if k != "$self"}
            h = self.contracts.get(("<fn>", fv.qual))
            if h is not None: return h(self, None, args, kwargs, st)
            return self.call_fn(fv.node, args, kwargs, st, closure=env, owner=fv.owner, qual=fv.qual)
        if isinstance(fv, VFunc):
            if isinstance(fv.fn, tuple) and fv.fn[0] == "method":
                return self.call_method(fv.fn[1], fv.fn[2], args, kwargs, st, n)
            return fv.fn(self, args, kwargs, st, n)
        if isinstance(fv, VClass): return self.construct(fv.name, args, kwargs, st, n)
        if isinstance(fv, VRef):
            h = self.contracts.get((fv.cls, "__call__"))
            if h is not None: return h(self, fv, args, kwargs, st)
        if isinstance(fv, VOpaque):
            h = self.opaque_call.get(fv.sort)
            if h: return h(self, fv, args, kwargs, st, n)
        raise Unsupported(f"call of {type(fv).__name__} @ {self.where(n)}")

    # ------------------------------------------------------------------ constructors and builtins
    def construct(self, name, args, kwargs, st, n=None):
        w = self.w
        h = self.contracts.get((name, "__new__"))
        if h is not None: return h(self, VClass(name), args, kwargs, st)
        if name == "Point":
            a = list(args) + [kwargs.get(k, NONE) for k in ("x", "y", "z")[len(args):]]
            if len(a) > 3: self.raise_if(st, T, "TypeError", n); a = a[:3]
            return VPoint(*[as_opt(x) for x in a])
        if name in ("ParamsDict", "dict"):
            d = VDict({}, {}, upper=(name == "ParamsDict"))
            if args:
                src = self.dict_of(st, args[0], n)
                for k in src.present: self.dict_set(d, k, src.vals[k], src.present[k])
            for k, v in kwargs.items():
                if k == "**":
                    src = self.dict_of(st, v, n)
                    for kk in src.present: self.dict_set(d, kk, src.vals[kk], src.present[kk])
                else: self.dict_set(d, k, v, T)
            return st.alloc(name, {"$d": d})
        if name in w.classes and w.classes[name].is_enum:
            return self.enum_ctor(name, args[0], st, n)
        if name in w.exc_parent or (name in w.classes and w.is_subclass(name, "Exception")): return VExc(name, args)
        if name == "len": return self.len_(args[0], st, n)
        if name == "abs":
            if isinstance(args[0], VOpaque): return self.opaque_op("abs", args, st, n)
            return n_abs(self.as_num(st, args[0], n))
        if name in ("float", "int"):
            v = args[0]
            if isinstance(v, VOpaque): return self.opaque_op(name, args, st, n)
            if isinstance(v, VStr):
                h = self.ext.get(name + "_of_str")
                if h: return h(self, v, st, n)
                raise Unsupported(f"{name}(str)")
            v = self.as_num(st, v, n)
            if name == "float": return VNum(v.sp, v.val, False)
            if v.isint: return v
            c = self.concrete(v)
            if c is not None: return num(int(c))
            h = self.ext.get("int_of_num")
            if h: return h(self, v, st, n)
            # int(v) for a float: truncation toward zero; int(nan) raises ValueError, int(±inf) OverflowError
            self.raise_if(st, v.sp == 1, "ValueError", n); self.raise_if(st, OR(v.sp == 2, v.sp == 3), "OverflowError", n)
            k = fresh("trunc", z3.RealSort())
            self.assume.append(AND(z3.IsInt(k), ITE(v.val >= 0, AND(k <= v.val, v.val < k + 1), AND(k >= v.val, v.val > k - 1))))
            return VNum(z3.IntVal(0), k, True)
        if name == "round" and len(args) == 1 and not kwargs:
            v = self.as_num(st, args[0], n)
            if v.isint: return v
            # round(v) for a float: nearest integer, ties to even; round(nan) raises ValueError, round(±inf) OverflowError
            self.raise_if(st, v.sp == 1, "ValueError", n); self.raise_if(st, OR(v.sp == 2, v.sp == 3), "OverflowError", n)
            k = fresh("round", z3.RealSort()); half = z3.RealVal("1/2")
            self.assume.append(AND(z3.IsInt(k), k - v.val <= half, v.val - k <= half,
                                   IMP(OR(k - v.val == half, v.val - k == half), z3.ToInt(k) % 2 == 0)))
            return VNum(z3.IntVal(0), k, True)
        if name == "bool": return VBool(self.truth(args[0], st))
        if name in ("any", "all"):
            els = self.iter_items(args[0], st, n)
            if name == "any": return VBool(OR(*[AND(g, self.truth(v, st)) for g, v in els]))
            return VBool(AND(*[IMP(g, self.truth(v, st)) for g, v in els]))
        if name == "str": return self.to_str(args[0], st, n)
        if name == "bytes":
            h = self.ext.get("bytes")
            if h: return h(self, args, st, n)
            raise Unsupported("bytes()")
        if name in ("list", "tuple"):
            items = self.unpack(args[0], st, n) if args else []
            if name == "tuple": return VTuple(items)
            # ghost fields of a list under contract (e.g. the hidden-prefix length "$plen") describe its contents and are copied with them
            ghost = {k: v for k, v in st.heap.get(args[0].oid, {}).items() if k.startswith("$") and k != "$l"} if args and isinstance(args[0], VRef) and "$l" in st.heap.get(args[0].oid, {}) else {}
            return st.alloc("list", {"$l": VList(items), **ghost})
        if name in ("max", "min"):
            vals = args if len(args) > 1 else self.unpack(args[0], st, n)
            if any(isinstance(v, VOpaque) for v in vals): return self.opaque_op(name, vals, st, n)
            acc = self.as_num(st, vals[0], n)
            for v in vals[1:]:
                v = self.as_num(st, v, n)
                c = n_lt(acc, v) if name == "max" else n_lt(v, acc)
                acc = merge(simp(c), v, acc)
            return acc
        if name == "round":
            h = self.ext.get("round")
            if h: return h(self, args, st, n)
        if name == "getattr":
            return self.getattr_(args[0], args[1].py, st, n)
        if name == "hasattr":
            h = self.ext.get("hasattr")
            if h: return h(self, args, st, n)
        if name in ("enumerate", "zip", "range", "map"):
            return self.iter_builtin(name, args, st, n)
        if name in w.classes:
            return self.new_object(name, args, kwargs, st, n)
        raise Unsupported(f"call {name} @ {self.where(n)}")

    def new_object(self, name, args, kwargs, st, n):
        ref = st.alloc(name, {})
        found = self.w.lookup(name, "__init__")
        if found:
            fn, owner = found
            self.call_fn(fn, [ref] + args, kwargs, st, owner=owner, qual=f"{owner}.__init__")
        return ref

    def iter_builtin(self, name, args, st, n):
        if name == "enumerate":
            items = self.unpack(args[0], st, n)
            return VList([VTuple([num(i), v]) for i, v in enumerate(items)])
        if name == "zip":
            ls = [self.iter_items(a, st, n) for a in args]
            out = []
            for t in zip(*ls):
                g = simp(AND(*[gi for gi, _ in t]))
                tv = VTuple([v for _, v in t])
                out.append(tv if z3.is_true(g) else ("$g", g, tv))
            return VList(out)
        if name == "map":
            h = self.ext.get("map")
            if h: return h(self, args, {}, st, n)
        if name == "range":
            cs = [self.concrete(a) for a in args]
            if any(c is None for c in cs): raise Unsupported("symbolic range")
            return VList([num(i) for i in range(*cs)])
        raise Unsupported(name)

    def enum_ctor(self, cls, v, st, n=None):
        members = self.w.enum_members(cls); k = len(members)
        if isinstance(v, VOpt): v = self.need(st, v, "ValueError", n)
        if isinstance(v, VEnum):
            if v.cls != cls: raise Unsupported(f"enum ctor {cls}({v.cls})")
            if v.arg: self.raise_if(st, OR(v.idx < 0, v.idx >= k), "ValueError", n)
            return VEnum(cls, v.idx, False)
        if isinstance(v, VStr):
            if v.py is not None:
                for i, (_, val) in enumerate(members):
                    if val == v.py: return VEnum(cls, z3.IntVal(i))
                syn = self.w.module_const(self.w.classes[cls].module, "SYNONYMS")
                if syn is not None and "_missing_" in self.w.classes[cls].methods:
                    d = self.const_eval(syn[0], syn[1])
                    if v.py in d.present: return self.enum_ctor(cls, d.vals[v.py], st, n)
                self.raise_if(st, T, "ValueError", n); return VEnum(cls, z3.IntVal(0))
            src = getattr(v, "enumsrc", None)
            if src is not None:
                svals = [val for _, val in self.w.enum_members(src.cls)]
                tvals = [val for _, val in members]
                idx = z3.IntVal(-1)
                for i in range(len(svals) - 1, -1, -1):
                    j = tvals.index(svals[i]) if svals[i] in tvals else -1
                    idx = ITE(src.idx == i, z3.IntVal(j), idx)
                idx = simp(idx)
                self.raise_if(st, idx < 0, "ValueError", n)
                return VEnum(cls, idx)
        raise Unsupported(f"enum ctor {cls} from {type(v).__name__}")

    def len_(self, v, st, n=None):
        if isinstance(v, VOpt): v = self.need(st, v, "TypeError", n)
        if isinstance(v, VList) and any(isinstance(i, tuple) for i in v.items):
            return VNum(z3.IntVal(0), z3.Sum([ITE(simp(i[1]) if isinstance(i, tuple) else T, z3.RealVal(1), z3.RealVal(0)) for i in v.items]), True)
        if isinstance(v, (VTuple, VList)): return num(len(v.items))
        if isinstance(v, VPoint): return num(3)
        if isinstance(v, VStr):
            if v.py is not None: return num(len(v.py))
            return VNum(z3.IntVal(0), z3.ToReal(z3.Length(v.term)), True)
        if isinstance(v, VDict):
            if all(z3.is_true(p) or z3.is_false(p) for p in v.present.values()):
                return num(sum(1 for p in v.present.values() if z3.is_true(p)))
            tot = z3.Sum([ITE(p, z3.RealVal(1), z3.RealVal(0)) for p in v.present.values()])
            return VNum(z3.IntVal(0), tot, True)
        if isinstance(v, VRef):
            obj = st.heap.get(v.oid, {})
            if "$d" in obj: return self.len_(obj["$d"], st, n)
            if "$l" in obj:
                r = self.len_(obj["$l"], st, n)
                return n_add(r, obj["$plen"]) if "$plen" in obj else r
            if "$len" in obj: return obj["$len"]
            h = self.contracts.get((v.cls, "__len__"))
            if h: return h(self, v, [], {}, st)
        if isinstance(v, VOpaque): return self.opaque_op("len", [v], st, n)
        raise Unsupported(f"len of {type(v).__name__} @ {self.where(n)}")

    def isinstance_(self, v, tnode, st, n=None):
        names = []
        def from_value(val):
            if isinstance(val, VClass): names.append(val.name)
            elif isinstance(val, VTuple): [from_value(e) for e in val.items]
            else: raise Unsupported(f"isinstance against a non-class value @ {self.where(n)}")
        def collect(t):
            if isinstance(t, ast.Name) and t.id in st.env: from_value(st.env[t.id])       # a local variable holding the class (or tuple of classes)
            elif isinstance(t, ast.Name): names.append(t.id)
            elif isinstance(t, ast.Attribute): names.append(t.attr)
            elif isinstance(t, ast.Tuple): [collect(e) for e in t.elts]
            elif isinstance(t, ast.BinOp): collect(t.left); collect(t.right)
            else: raise Unsupported("isinstance type expr")
        collect(tnode)
        def one(x):
            if x is None or isinstance(x, VNone): return F
            if isinstance(x, VNum):
                if "Number" in names or "Real" in names: return T
                if getattr(x, "pytype", None) == "np.float32":          # a numpy scalar that is a Number but not a python float/int
                    return z3.BoolVal(any(k in names for k in ("floating", "float32", "generic")))
                if "float" in names and "int" in names: return T
                if "int" in names:
                    if x.isint is None: raise Unsupported(f"isinstance(number of unknown int-ness, int) @ {self.where(n)}")
                    return z3.BoolVal(bool(x.isint))
                if "float" in names:
                    if x.isint is None: raise Unsupported(f"isinstance(number of unknown int-ness, float) @ {self.where(n)}")
                    return z3.BoolVal(not x.isint)
                return F
            if isinstance(x, VBool): return z3.BoolVal(any(k in names for k in ("bool", "int", "Number")))
            if isinstance(x, VPoint): return z3.BoolVal("Point" in names or "tuple" in names)
            if isinstance(x, VStr): return z3.BoolVal("str" in names)
            if isinstance(x, VEnum): return z3.BoolVal(any(self.w.is_subclass(x.cls, k) for k in names if k in self.w.classes) or "str" in names)
            if isinstance(x, VTuple): return z3.BoolVal("tuple" in names)
            if isinstance(x, VDict): return z3.BoolVal("dict" in names)
            if isinstance(x, VList): return z3.BoolVal("list" in names)
            if isinstance(x, VRef):
                if "$d" in st.heap.get(x.oid, {}): return z3.BoolVal("dict" in names or x.cls in names)
                if "$l" in st.heap.get(x.oid, {}): return z3.BoolVal("list" in names)
                return z3.BoolVal(any(self.w.is_subclass(x.cls, k) for k in names))
            if isinstance(x, VOpaque):
                h = self.opaque_isinstance.get(x.sort)
                if h: return h(x, names)
            raise Unsupported(f"isinstance on {type(x).__name__} @ {self.where(n)}")
        if isinstance(v, VOpt): return VBool(AND(NOT(v.none), one(v.inner)))
        return VBool(one(v))

    # ------------------------------------------------------------------ method calls
    def call_method(self, recv, name, args, kwargs, st, n=None, after=None):
        if isinstance(recv, VOpt): recv = self.need(st, recv, "AttributeError", n)
        if isinstance(recv, VNone):
            self.raise_if(st, T, "AttributeError", n); return NONE
        if isinstance(recv, VRef):
            obj = st.heap.get(recv.oid, {})
            h = None
            if after is None:
                for c in self.w.mro(recv.cls):
                    h = self.contracts.get((c, name))
                    if h is not None: break
                    if c in self.w.classes and name in self.w.classes[c].methods: break
            else:
                chain = self.w.mro(recv.cls); chain = chain[chain.index(after) + 1:] if after in chain else chain
                for c in chain:
                    h = self.contracts.get((c, name))
                    if h is not None: break
                    if c in self.w.classes and name in self.w.classes[c].methods: break
            if h is not None: return h(self, recv, args, kwargs, st)
            if "$a" in obj: return self.call_value(self.ext["arr_attr"](self, recv, name, st, n), args, kwargs, st, n)
            if "$d" in obj: return self.dict_method(recv, name, args, kwargs, st, n)
            if "$l" in obj: return self.list_method(recv, name, args, kwargs, st, n)
            if name in obj and isinstance(obj[name], (VClosure, VFunc, VRef)):    # callable stored in a field
                return self.call_value(obj[name], args, kwargs, st, n)
            found = self.w.lookup(recv.cls, name, after=after)
            if found is None:
                if after is not None and name == "__init__": return NONE      # object.__init__
                raise Unsupported(f"no method {recv.cls}.{name} @ {self.where(n)}")
            fn, owner = found
            if "staticmethod" in self.w.decorators(fn):
                return self.call_fn(fn, args, kwargs, st, owner=owner, qual=f"{owner}.{name}")
            if "classmethod" in self.w.decorators(fn):
                return self.call_fn(fn, [VClass(recv.cls)] + args, kwargs, st, owner=owner, qual=f"{owner}.{name}")
            return self.call_fn(fn, [recv] + args, kwargs, st, owner=owner, qual=f"{owner}.{name}")
        if isinstance(recv, VPoint):
            h = self.contracts.get(("Point", name))
            if h is not None: return h(self, recv, args, kwargs, st)
            found = self.w.lookup("Point", name)
            if found is None:
                if name == "_replace":
                    return VPoint(*[as_opt(kwargs.get(a, getattr(recv, a))) for a in "xyz"])
                raise Unsupported(f"Point.{name}")
            if "staticmethod" in self.w.decorators(found[0]):
                return self.call_fn(found[0], args, kwargs, st, owner="Point", qual=f"Point.{name}")
            return self.call_fn(found[0], [recv] + args, kwargs, st, owner="Point", qual=f"Point.{name}")
        if isinstance(recv, VEnum):
            h = self.contracts.get((recv.cls, name))
            if h is not None: return h(self, recv, args, kwargs, st)
            found = self.w.lookup(recv.cls, name)
            if found is None:
                if name in ("upper", "lower", "strip"): return self.str_method(self.getattr_(recv, "value", st), name, args, kwargs, st, n)
                raise Unsupported(f"{recv.cls}.{name}")
            return self.call_fn(found[0], [recv] + args, kwargs, st, owner=found[1], qual=f"{found[1]}.{name}")
        if isinstance(recv, VClass):
            h = self.contracts.get((recv.name, name))
            if h is not None: return h(self, recv, args, kwargs, st)
            found = self.w.lookup(recv.name, name)
            if found:
                fn, owner = found
                decos = self.w.decorators(fn)
                if "classmethod" in decos: return self.call_fn(fn, [recv] + args, kwargs, st, owner=owner, qual=f"{owner}.{name}")
                return self.call_fn(fn, args, kwargs, st, owner=owner, qual=f"{owner}.{name}")
            raise Unsupported(f"class method {recv.name}.{name} @ {self.where(n)}")
        if isinstance(recv, VModule):
            h = self.ext.get(f"{recv.name}.{name}")
            if h is None: raise Unsupported(f"external {recv.name}.{name} @ {self.where(n)}")
            return h(self, args, kwargs, st, n)
        if isinstance(recv, VDict): return self.dict_method(recv, name, args, kwargs, st, n)
        if isinstance(recv, VStr): return self.str_method(recv, name, args, kwargs, st, n)
        if isinstance(recv, (VList, VTuple)):
            if name == "index":
                for i, it in enumerate(recv.items):
                    if z3.is_true(simp(self.eq(args[0], it, st))): return num(i)
                raise Unsupported("symbolic .index")
            if name == "count": raise Unsupported("count")
        if isinstance(recv, VOpaque):
            h = self.opaque_methods.get(recv.sort)
            if h: return h(self, recv, name, args, kwargs, st, n)
        if isinstance(recv, VStmt):
            h = self.ext.get("stmt_method")
            if h: return h(self, recv, name, args, kwargs, st, n)
        if isinstance(recv, VNum) and name == "is_integer":
            raise Unsupported("is_integer")
        raise Unsupported(f"method {name} on {type(recv).__name__} @ {self.where(n)}")

    def dict_method(self, recv, name, args, kwargs, st, n=None):
        if isinstance(recv, VRef):
            d = st.heap[recv.oid]["$d"].copy(); inplace = True
        else:
            d = recv; inplace = False
        def commit():
            if inplace: st.heap[recv.oid]["$d"] = d
        if name == "get":
            return self.dict_get(d, args[0], args[1] if len(args) > 1 else kwargs.get("default", NONE), st)
        if name == "pop":
            key = args[0]
            if not (isinstance(key, VStr) and key.py is not None): raise Unsupported("dict.pop key")
            k = key.py.upper() if d.upper else key.py
            if k not in d.present:
                if len(args) > 1: return args[1]
                self.raise_if(st, T, "KeyError", n); return NONE
            p, v = d.present.pop(k), d.vals.pop(k)
            commit()
            if len(args) > 1: return merge(simp(p), v, args[1])
            self.raise_if(st, NOT(p), "KeyError", n); return v
        if name == "update":
            srcs = []
            if args: srcs.append(self.dict_of(st, args[0], n))
            if "**" in kwargs: srcs.append(self.dict_of(st, kwargs["**"], n))
            for src in srcs:
                for kk in src.present: self.dict_set(d, kk, src.vals[kk], src.present[kk])
            for k, v in kwargs.items():
                if k != "**": self.dict_set(d, k, v, T)
            commit(); return NONE
        if name == "items":
            return VList([("$g", d.present[k], VTuple([VStr(k), d.vals[k]])) for k in d.present])
        if name == "keys":
            return VList([("$g", d.present[k], VStr(k)) for k in d.present])
        if name == "values":
            return VList([("$g", d.present[k], d.vals[k]) for k in d.present])
        if name == "copy":
            return st.alloc(recv.cls if isinstance(recv, VRef) else "dict", {"$d": d.copy()})
        if name == "clear":
            d.present.clear(); d.vals.clear(); commit(); return NONE
        if name == "setdefault":
            key = args[0]; k = key.py.upper() if d.upper else key.py
            dflt = args[1] if len(args) > 1 else NONE
            cur = self.dict_get(d, key, dflt, st)
            self.dict_set(d, k, cur, T); commit(); return cur
        raise Unsupported(f"dict.{name} @ {self.where(n)}")

    def list_method(self, recv, name, args, kwargs, st, n=None):
        l = st.heap[recv.oid]["$l"]
        if name == "append":
            st.heap[recv.oid]["$l"] = VList(l.items + [args[0]]); return NONE
        if name == "extend":
            st.heap[recv.oid]["$l"] = VList(l.items + self.unpack(args[0], st, n)); return NONE
        if name == "clear":
            st.heap[recv.oid]["$l"] = VList([]); return NONE
        if name == "pop":
            if not l.items:
                self.raise_if(st, T, "IndexError", n); return NONE
            i = self.concrete(args[0]) if args else -1
            if i is None: raise Unsupported("list.pop symbolic index")
            items = list(l.items); v = items.pop(i)
            st.heap[recv.oid]["$l"] = VList(items); return v
        if name == "copy":
            return st.alloc("list", {"$l": VList(list(l.items)), **{k: v for k, v in st.heap[recv.oid].items() if k.startswith("$") and k != "$l"}})
        if name == "index":
            return self.call_method(l, "index", args, kwargs, st, n)
        if name == "remove":
            for i, it in enumerate(l.items):
                e = simp(self.eq(args[0], it, st))
                if z3.is_true(e):
                    st.heap[recv.oid]["$l"] = VList(l.items[:i] + l.items[i + 1:]); return NONE
                if not z3.is_false(e): raise Unsupported("list.remove with symbolic equality")
            self.raise_if(st, T, "ValueError", n); return NONE
        raise Unsupported(f"list.{name} @ {self.where(n)}")

    def str_method(self, recv, name, args, kwargs, st, n=None):
        h = self.ext.get("str." + name)
        if h is not None: return h(self, recv, args, kwargs, st, n)
        if name == "find" and len(args) == 1 and isinstance(args[0], VStr) and not (recv.py is not None and args[0].py is not None):
            t, sub = recv.z(), args[0].z()
            k = z3.IndexOf(t, sub, z3.IntVal(0))
            # lemma instances (ByteSeq.find_first, ByteSeq.take_succ): facts about the first occurrence, true of str.indexof
            n_ = z3.Length(sub)
            self.assume.append(AND(
                IMP(k >= 0, AND(NOT(z3.Contains(z3.SubString(t, 0, k), sub)) if True else T, z3.SubString(t, k, n_) == sub, k + n_ <= z3.Length(t),
                                z3.SubString(t, 0, k + n_) == z3.Concat(z3.SubString(t, 0, k), sub),
                                t == z3.Concat(z3.SubString(t, 0, k + n_), z3.SubString(t, k + n_, z3.Length(t) - (k + n_))))),
                IMP(k < 0, NOT(z3.Contains(t, sub))), k >= -1))
            return VNum(z3.IntVal(0), z3.ToReal(k), True)
        if name == "join" and len(args) == 1:
            raw = args[0]
            if isinstance(raw, VRef) and "$l" in st.heap.get(raw.oid, {}): raw = st.heap[raw.oid]["$l"]
            if isinstance(raw, VList) and any(isinstance(i, tuple) for i in raw.items):
                if not (recv.py == ""): raise Unsupported("join with a separator over guarded elements")
                parts = []
                for i in raw.items:
                    p, v = (i[1], i[2]) if isinstance(i, tuple) else (T, i)
                    parts.append(ITE(simp(p), v.z(), z3.StringVal("")))
                return VStr(None, z3.Concat(*parts) if len(parts) > 1 else parts[0])
            items = self.unpack(args[0], st, n)
            if not all(isinstance(i, VStr) for i in items): raise Unsupported("join of non-strings")
            if all(i.py is not None for i in items) and recv.py is not None: return VStr(recv.py.join(i.py for i in items))
            parts = []
            for k, i in enumerate(items):
                if k: parts.append(recv.z())
                parts.append(i.z())
            if not parts: return VStr("")
            return VStr(None, z3.Concat(*parts) if len(parts) > 1 else parts[0])
        if name in ("startswith", "endswith") and len(args) == 1 and isinstance(args[0], VStr):
            if not (recv.py is not None and args[0].py is not None):
                return VBool(z3.PrefixOf(args[0].z(), recv.z()) if name == "startswith" else z3.SuffixOf(args[0].z(), recv.z()))
        if recv.py is not None and all(isinstance(a, VStr) and a.py is not None for a in args):
            pyargs = [a.py for a in args]
            if name in ("upper", "lower", "strip", "rstrip", "lstrip", "startswith", "endswith", "isidentifier", "replace", "split", "format", "isdigit",
                        "partition", "rpartition", "splitlines", "isalnum", "find", "index"):
                r = getattr(recv.py, name)(*pyargs)
                if isinstance(r, bool): return VBool(z3.BoolVal(r))
                if isinstance(r, int): return num(r)
                if isinstance(r, str): return VStr(r)
                if isinstance(r, list): return VList([VStr(x) for x in r])
                if isinstance(r, tuple): return VTuple([VStr(x) for x in r])
        if name == "format" and recv.py is not None:
            # "<template>".format(...) with plain fields ({} / {0} / {name}, no conversion or format spec) is the f-string with the same parts
            import string as _string
            parts, auto, plain = [], 0, True
            try: fields = list(_string.Formatter().parse(recv.py))
            except ValueError: fields, plain = [], False
            for lit, fname, spec, conv in fields:
                if lit: parts.append(VStr(lit))
                if fname is None: continue
                if spec or conv: plain = False; break
                if fname == "":
                    if auto >= len(args): plain = False; break
                    parts.append(args[auto]); auto += 1
                elif fname.isdigit() and int(fname) < len(args): parts.append(args[int(fname)])
                elif fname in kwargs: parts.append(kwargs[fname])
                else: plain = False; break
            if plain: return self.join_parts(parts, st, n)
        if name == "format" and any(isinstance(a, VStmt) for a in list(args) + list(kwargs.values())): raise Unsupported(f"str.format of a statement with a format spec @ {self.where(n)}")
        if name == "format" and not self.string_mode:
            return VStr(None, fresh("formatted", z3.StringSort()))          # message text: opaque outside string mode
        raise Unsupported(f"str.{name} on symbolic string @ {self.where(n)}")

    def str_join(self, sep, els, st, n):
        h = self.ext.get("str.join")
        if h: return h(self, sep, els, st, n)
        return VStr(None, fresh("joined", z3.StringSort()))

    # ------------------------------------------------------------------ inlined calls of repository functions
    def bind_args(self, node, args, kwargs, st, env):
        a = node.args
        params = list(a.posonlyargs) + list(a.args)
        defaults = a.defaults
        dmap = {p.arg: d for p, d in zip(params[len(params) - len(defaults):], defaults)}
        for p, d in zip(a.kwonlyargs, a.kw_defaults):
            if d is not None: dmap[p.arg] = d
        kw = {k: v for k, v in kwargs.items() if k != "**"}
        star = kwargs.get("**")
        stard = self.dict_of(st, star).copy() if star is not None else None
        pos = list(args)
        for i, p in enumerate(params):
            if pos: env[p.arg] = pos.pop(0)
            elif p.arg in kw: env[p.arg] = kw.pop(p.arg)
            elif stard is not None and p.arg in stard.present:
                pr = simp(stard.present.pop(p.arg)); v = stard.vals.pop(p.arg)
                if z3.is_true(pr): env[p.arg] = v
                elif p.arg in dmap: env[p.arg] = merge(pr, v, self.ev(dmap[p.arg], State(st.pc, env, st.heap, st.log)))
                else: raise Unsupported(f"possibly-missing argument {p.arg}")
            elif p.arg in dmap: env[p.arg] = self.ev(dmap[p.arg], State(st.pc, env, st.heap, st.log))
            else: raise Unsupported(f"missing argument {p.arg} of {node.name}")
        for p in a.kwonlyargs:
            if p.arg in kw: env[p.arg] = kw.pop(p.arg)
            elif p.arg in dmap: env[p.arg] = self.ev(dmap[p.arg], State(st.pc, env, st.heap, st.log))
        if a.vararg is not None: env[a.vararg.arg] = VTuple(pos)
        elif pos: raise Unsupported(f"too many positional arguments for {node.name}")
        if a.kwarg is not None:
            d = stard if stard is not None else VDict({}, {})
            d = VDict(dict(d.present), dict(d.vals), False)
            for k, v in kw.items(): self.dict_set(d, k, v, T)
            env[a.kwarg.arg] = st.alloc("dict", {"$d": d})
        elif kw: raise Unsupported(f"unexpected keyword arguments {list(kw)} for {node.name}")

    def call_fn(self, node, args, kwargs, st, closure=None, owner=None, qual=None):
        if self.depth > self.max_depth: raise Unsupported("inline depth")
        if st.dead: return NONE
        env = dict(closure or {})
        self.bind_args(node, args, kwargs, st, env)
        if owner: env["__class__"] = owner
        qual = qual or node.name
        self.inlined.add(qual)
        cs = State(st.pc, env, st.heap, st.log)
        saved = (self.exits, self.cur_qual, self.cur_mod, self.depth, self.loop_ord)
        self.exits = []; self.cur_qual = qual; self.depth += 1; self.loop_ord = 0
        if owner in self.w.classes: self.cur_mod = self.w.classes[owner].module
        else:
            f = self.w.functions.get(qual) or self.w.functions.get(qual.split(".")[0])
            if f and f[0] is node: self.cur_mod = f[1]
        try:
            end = self.block(node.body, cs)
            sub_exits = self.exits
        finally:
            self.exits, self.cur_qual, self.cur_mod, self.depth, self.loop_ord = saved
        conts = [] if end.dead else [(end.pc, NONE, end.heap, end.log)]
        for e in sub_exits:
            if e.kind == "raise": self.exits.append(e)
            elif e.kind == "return": conts.append((e.cond, e.payload, e.heap, e.log))
            else: raise Unsupported(f"{e.kind} outside loop in {qual}")
        if not conts:
            st.pc = F; return NONE
        pc, val, heap, log = conts[0]
        acc = State(pc, {}, heap, log); accv = val
        for (pc2, v2, h2, l2) in conts[1:]:
            try: accv = merge(pc2, v2, accv)
            except Unsupported as u: raise Unsupported(f"return-merge in {qual}: {u}")
            acc = join(pc2, State(pc2, {}, h2, l2), acc)
        st.pc, st.heap, st.log = simp(acc.pc), acc.heap, acc.log
        return accv

    # ------------------------------------------------------------------ comprehensions / generator expressions
    def iter_items(self, v, st, n=None):
        """iterable -> list of (guard, value) with concrete length"""
        if isinstance(v, VOpt): v = self.need(st, v, "TypeError", n)
        if isinstance(v, VRef):
            obj = st.heap.get(v.oid, {})
            if "$l" in obj: v = obj["$l"]
            elif "$d" in obj: v = VList([("$g", p, VStr(k)) for k, p in obj["$d"].present.items()])
            else: raise Unsupported(f"iteration over {v.cls} (needs loop contract) @ {self.where(n)}")
        if isinstance(v, VDict): v = VList([("$g", p, VStr(k)) for k, p in v.present.items()])
        if isinstance(v, VPoint): v = VTuple(v.items())
        if isinstance(v, (VTuple, VList)):
            out = []
            for it in v.items:
                if isinstance(it, tuple) and it[0] == "$g": out.append((it[1], it[2]))
                else: out.append((T, it))
            return out
        if isinstance(v, VClass) and v.name in self.w.classes and self.w.classes[v.name].is_enum:
            return [(T, VEnum(v.name, z3.IntVal(i))) for i in range(len(self.w.enum_members(v.name)))]
        raise Unsupported(f"iteration over {type(v).__name__} @ {self.where(n)}")

    def comp_opaque(self, n, st):
        """a comprehension `[f(s) for s in <opaque sequence>]` (one generator, no condition) over a sequence of unknown length: handed to the
        specification's `map_opaque` rule when there is one (e.g. the lines of str.splitlines()); None when the rule does not apply"""
        h = self.ext.get("map_opaque")
        if h is None or isinstance(n, ast.DictComp) or len(n.generators) != 1 or n.generators[0].ifs: return None
        g = n.generators[0]
        if not isinstance(g.target, ast.Name): return None
        saved = dict(st.env)
        it = self.ev(g.iter, st)
        if not isinstance(it, VOpaque): st.env = saved; return None
        r = h(self, it, g.target.id, n.elt, st, n)
        st.env = saved
        return r

    def comp_elements(self, n, st):
        """generator/list comprehension with one or more `for` over concrete-length iterables -> [(guard, value)]"""
        out = []
        saved_env = dict(st.env)
        def rec(gi, guard):
            if gi == len(n.generators):
                # the element expression is evaluated only when its guard holds: exceptions it raises carry the guard
                pc0 = st.pc; st.pc = simp(AND(pc0, guard))
                v = self.ev(n.elt, st) if not isinstance(n, ast.DictComp) else (self.ev(n.key, st), self.ev(n.value, st))
                st.pc = simp(OR(AND(pc0, NOT(guard)), st.pc))
                out.append((guard, v))
                return
            g = n.generators[gi]
            for ig, item in self.iter_items(self.ev(g.iter, st), st, n):
                self.assign(g.target, item, st)
                cg = AND(guard, ig)
                for c in g.ifs: cg = AND(cg, self.truth(self.ev(c, st), st))
                cg = simp(cg)
                if z3.is_false(cg): continue
                rec(gi + 1, cg)
        rec(0, T)
        st.env = saved_env
        return out

    def e_GeneratorExp(self, n, st):
        r = self.comp_opaque(n, st)
        if r is not None: return r
        return VList([("$g", g, v) for g, v in self.comp_elements(n, st)])
    def e_ListComp(self, n, st):
        r = self.comp_opaque(n, st)
        if r is not None: return r
        els = self.comp_elements(n, st)
        if all(z3.is_true(g) for g, _ in els): return st.alloc("list", {"$l": VList([v for _, v in els])})
        return VList([("$g", g, v) for g, v in els])

    def e_DictComp(self, n, st):
        d = VDict({}, {})
        for g, (k, v) in self.comp_elements(n, st):
            if not (isinstance(k, VStr) and k.py is not None): raise Unsupported("dict comprehension key")
            self.dict_set(d, k.py, v, g)
        return st.alloc("dict", {"$d": d})

    def comp_call(self, fname, n, st):
        els = self.comp_elements(n.args[0], st)
        if fname == "next":
            default = self.ev(n.args[1], st) if len(n.args) > 1 else None
            res = default
            if res is None:
                none_found = AND(*[NOT(g) for g, _ in els])
                self.raise_if(st, none_found, "StopIteration", n)
                res = els[-1][1] if els else NONE
            for g, v in reversed(els): res = merge(g, v, res)
            return res
        if fname == "any": return VBool(OR(*[AND(g, self.truth(v, st)) for g, v in els]))
        if fname == "all": return VBool(AND(*[IMP(g, self.truth(v, st)) for g, v in els]))
        if fname in ("list", "tuple"):
            if all(z3.is_true(g) for g, _ in els):
                items = [v for _, v in els]
                return VTuple(items) if fname == "tuple" else st.alloc("list", {"$l": VList(items)})
            return VList([("$g", g, v) for g, v in els])
        if fname == "sum":
            acc = num(0)
            for g, v in els: acc = merge(g, n_add(acc, self.as_num(st, v, n)), acc)
            return acc
        raise Unsupported(f"{fname}(generator)")
