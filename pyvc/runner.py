"""bin/check <PROPERTY> [--tier quick|thorough] [--replay FILE]

exit 0 held · 1 violation (VIOLATION property=<id> replay=<path>) · 2 undecided · 3 checker defect   (DESIGN §6.1)
"""
import sys, os, json, time, argparse, importlib, pkgutil, traceback, hashlib
import multiprocessing as mp

ROOT = os.path.dirname(os.path.dirname(os.path.abspath(__file__)))
sys.path.insert(0, ROOT)
os.environ.setdefault("TMPDIR", os.path.join(ROOT, ".tmp"))
os.makedirs(os.environ["TMPDIR"], exist_ok=True)

from pyvc.world import World
from pyvc import ctx as ctxmod

_WORLD = None


def load_specs():
    import specs
    for m in sorted(pkgutil.iter_modules(specs.__path__), key=lambda m: m.name):
        if m.name.endswith("_units"):
            importlib.import_module("specs." + m.name)
    return ctxmod.REGISTRY


def _work(job):
    i, tier, seed, known_ids = job
    global _WORLD
    if _WORLD is None: _WORLD = World()
    u = ctxmod.REGISTRY[i]
    try:
        r = ctxmod.run_unit(_WORLD, u, tier, seed, known_ids)
    except BaseException as e:   # pragma: no cover
        r = ctxmod.UnitResult(u.name); r.error = "checker error: " + traceback.format_exc()[-2000:]
    return r.__dict__


def load_json(path, default):
    try:
        with open(path) as f: return json.load(f)
    except FileNotFoundError:
        return default


def main(argv=None):
    ap = argparse.ArgumentParser()
    ap.add_argument("prop")
    ap.add_argument("--tier", default=os.environ.get("VERIF_TIER", "quick"))
    ap.add_argument("--replay")
    ap.add_argument("--jobs", type=int, default=int(os.environ.get("VERIF_JOBS", "0")))
    ap.add_argument("--unit", help="run only units whose name contains this text (development)")
    ap.add_argument("--no-evidence", action="store_true")
    a = ap.parse_args(argv)
    tier = a.tier if a.tier in ("quick", "thorough") else "quick"
    seed = int(os.environ.get("VERIF_SEED", "0") or 0)
    prop = a.prop
    t0 = time.time()
    if a.replay:
        from pyvc import replay
        return replay.run_file(a.replay)
    reg = load_specs()
    manifest_props = PROP_META
    if prop not in manifest_props:
        print(f"unknown property {prop}"); return 3
    kf = load_json(os.path.join(ROOT, "known_findings.json"), {"findings": [], "fixed": []})
    known_ids = [k["id"] for k in kf.get("findings", [])]
    known_by_id = {k["id"]: k for k in kf.get("findings", [])}
    sel = [i for i, u in enumerate(reg) if prop in u.props and (not a.unit or a.unit in u.name)]
    if not sel:
        print(f"no units registered for {prop}"); return 3
    jobs = a.jobs or min(16, max(1, len(sel)))
    global _WORLD
    _WORLD = World()
    work = [(i, tier, seed, known_ids) for i in sel]
    if jobs > 1 and len(sel) > 1:
        with mp.get_context("fork").Pool(jobs) as pool:
            results = pool.map(_work, work, chunksize=1)
    else:
        results = [_work(j) for j in work]
    # extra, property-specific bounded stand-ins (labelled; never counted as proved)
    bounded = []
    from specs import bounded as bmod
    for name, fn in bmod.BOUNDED.get(prop, []):
        try:
            bounded.append(fn(tier, seed))
        except Exception as e:
            bounded.append({"name": name, "status": "error", "detail": traceback.format_exc()[-1500:]})
    selftest = run_selftest(prop) if (tier == "thorough" and not a.unit and not os.environ.get("VERIF_NO_SELFTEST")) else None
    return report(prop, tier, seed, results, bounded, kf, known_by_id, time.time() - t0, a, selftest)


PROP_META = {f"C{i:02d}": {} for i in range(1, 21)}


def run_selftest(prop):
    """thorough tier: the check is run against scratch copies of the CURRENT /repo tree with (a) every stored seeded change for this property applied —
    each must be reported as a VIOLATION — and (b) every stored behaviour-preserving patch that touches a file this property's units read — each must
    stay green.  Nothing under /repo is modified; copies live under .tmp and are removed."""
    import subprocess, shutil, tempfile, glob
    from pyvc.world import REPO
    out = {"seeded": [], "harmless": []}
    def run_on(patch, expect):
        d = tempfile.mkdtemp(dir=os.environ["TMPDIR"])
        try:
            shutil.copytree(os.path.join(REPO, "gscrib"), os.path.join(d, "gscrib"))
            p = subprocess.run(["patch", "-p1", "-s", "-d", d, "-i", patch], capture_output=True, text=True)
            if p.returncode != 0: return {"patch": patch, "result": "patch does not apply to the current tree (skipped)"}
            env = dict(os.environ, GSCRIB_REPO=d, VERIF_NO_SELFTEST="1")
            r = subprocess.run([sys.executable, "-m", "pyvc.runner", prop, "--tier", "quick", "--no-evidence"], cwd=ROOT, env=env, capture_output=True, text=True)
            viol = [l for l in r.stdout.splitlines() if l.startswith("VIOLATION")]
            return {"patch": os.path.relpath(patch, ROOT), "exit": r.returncode, "violations": len(viol), "first": (viol[0][:200] if viol else ""), "as_expected": r.returncode == expect}
        finally:
            shutil.rmtree(d, ignore_errors=True)
    for m in sorted(glob.glob(os.path.join(ROOT, "seeded", "*", "meta.json"))):
        meta = load_json(m, {})
        if meta.get("property") == prop: out["seeded"].append(run_on(os.path.join(os.path.dirname(m), "patch.diff"), 1))
    touched = SELFTEST_FILES.get(prop, [])
    for m in sorted(glob.glob(os.path.join(ROOT, "harmless", "*", "meta.json"))):
        meta = load_json(m, {})
        if any(any(t in f for t in touched) for f in meta.get("files", [])): out["harmless"].append(run_on(os.path.join(os.path.dirname(m), "patch.diff"), 0))
    return out


SELFTEST_FILES = {
    "C01": ["gcode_core", "gcode_builder", "gcode_state", "bounds", "point"], "C02": ["gcode_builder", "gcode_state"], "C03": ["gcode_builder", "gcode_state", "bounds", "point"],
    "C04": ["transform", "gcode_core", "point"], "C05": ["gcode_builder", "gcode_core", "gcode_state", "bounds"], "C06": ["gcode_builder", "gcode_state"], "C07": ["gcode_builder", "gcode_state"],
    "C08": ["default_formatter"], "C09": ["default_formatter"], "C10": ["tracer", "direction"], "C11": ["tracer", "gcode_core"], "C12": ["tracer", "gcode_builder"],
    "C13": ["transformer", "transform"], "C14": ["gcode_core", "file_writer"], "C15": ["printcore"], "C16": ["printrun_writer", "printcore"], "C17": ["device"],
    "C18": ["printrun_writer"], "C19": ["heightmap"], "C20": ["gcode_builder", "extrusion_hook"],
}


def norm_name(nm):
    """obligation names as compared with the baseline: without source line numbers, ordinals, and the function an exit was raised in — renaming or
    moving a raise into a helper, or shifting lines, is not a change of the set of obligations"""
    import re as _re
    nm = _re.sub(r"#\d+", "", _re.sub(r":\d+", "", nm))
    nm = _re.sub(r"@[\w.<>]+", "", nm)                               # [raise:ValueError@GState._validate_feed_rate] -> [raise:ValueError]
    nm = _re.sub(r" ?\[[A-Z]\w*\.[\w.<>]+\]", "", nm)                 # a bare location tag [BoundManager.set_bounds]
    nm = _re.sub(r"(/engine/exits-(?:exclusive|exhaustive))/\d+", r"\1", nm)
    return nm


def report(prop, tier, seed, results, bounded, kf, known_by_id, wall, a, selftest=None):
    os.makedirs(os.path.join(ROOT, "evidence"), exist_ok=True)
    os.makedirs(os.path.join(ROOT, "replays"), exist_ok=True)
    import re as _re
    norm = norm_name
    writing = os.environ.get("VERIF_WRITE_BASELINE") == "1"
    baseline = [] if writing else [norm(b) for b in load_json(os.path.join(ROOT, "baseline_obligations.json"), {}).get(prop, [])]
    obls, errors, functions, trusted, known_present, known_gone = [], [], {}, set(), set(), set()
    solver_s, exec_s = 0.0, 0.0
    for r in results:
        functions.update(r["functions"]); trusted.update(r["trusted"]); exec_s += r["exec_seconds"]
        if r["error"]: errors.append((r["unit"], r["error"]))
        for o in r["obligations"]:
            if prop in o["props"]:
                obls.append(o); solver_s += o["seconds"]
                if o.get("known_id") and o["status"] == "discharged" and not o.get("known_gone"): known_present.add(o["known_id"])
                if o.get("known_gone"): known_gone.add(o["known_gone"])
    # closure obligation (DESIGN §2.6 / §3.5 (F)): every function of the repository that stores to a field of the invariant's footprint is under contract
    if prop in CLOSURE:
        fields = set(CLOSURE[prop])
        slots = _WORLD.classes["GState"].consts.get("__slots__")
        if "@GState" in fields: fields |= {e.value for e in slots.elts}; fields.discard("@GState")
        writers = _WORLD.footprint_writers(fields, CLOSURE_CLASSES.get(prop))
        for q, fs in sorted(writers.items()):
            if q.endswith(".__init__"): continue          # constructors: covered by the ground Init obligation
            covered = q in functions
            # a unit that could not be executed (Unsupported construct) leaves its functions unlisted: that is undecided, not a closure violation
            status = "discharged" if covered else ("undecided" if errors else "violated")
            obls.append({"name": f"closure/{q} stores to {','.join(fs)} and is under contract", "kind": "closure", "props": [prop], "backend": "ast-scan", "seconds": 0.0,
                         "where": q, "exit": None, "status": status, "reason": "" if covered else "the function was not reached because a unit could not be executed",
                         "replay": None if covered else {"reproduced": False, "detail": f"{q} writes the tracked field(s) {fs} but no unit executes it: the history invariant is not closed under the API"}})
    violations, undecided, engine = [], [], []
    names = set()
    for o in obls:
        names.add(o["name"])
        if o["status"] == "violated": violations.append(o)
        elif o["status"] == "undecided":
            # a solver 'unknown' / timeout is never reported as a violation, even when the obligation was discharged on the baseline tree: exit 2
            if o["kind"] not in ("cover", "canary", "known") and norm(o["name"]) in baseline: o["note"] = "discharged on the baseline tree, undecided now"
            undecided.append(o)
        elif o["status"] in ("vacuous", "engine-disagreement"): engine.append(o)
    for b in bounded:
        if b.get("status") == "violated": violations.append({"name": "bounded/" + b["name"], "kind": "bounded", "replay": b.get("replay"), "status": "violated", "bounded": True})
        elif b.get("status") == "error": engine.append({"name": "bounded/" + b["name"], "status": "error", "reason": b.get("detail", "")})
    nnames = {norm(n) for n in names}
    missing = sorted({n for n in baseline if n not in nnames})
    code = 0
    lines = []
    for kid in sorted(known_present):
        k = known_by_id.get(kid, {})
        if prop in k.get("properties", [k.get("property")]):
            lines.append(f"KNOWN-FINDING: property={prop} {kid}: {k.get('what', '')}")
    for v in violations:
        rp = v.get("replay") or {}
        fname = hashlib.sha1(v["name"].encode()).hexdigest()[:12]
        path = os.path.join(ROOT, "replays", f"{prop}_{fname}.json")
        with open(path, "w") as f:
            json.dump({"property": prop, "obligation": v["name"], "exit": v.get("exit"), "where": v.get("where"),
                       "backend": v.get("backend"), "note": v.get("note", ""), "replay": rp}, f, indent=1, default=str)
        reproduced = bool(rp.get("reproduced"))
        tail = "" if reproduced else " no-failing-input-found"
        lines.append(f"VIOLATION property={prop} replay={path} obligation={v['name']}{tail}")
        code = 1
    n_proof = [o for o in obls if o["kind"] not in ("cover", "canary", "known")]
    discharged = [o for o in n_proof if o["status"] == "discharged"]
    if code == 0:
        if engine or (not n_proof):
            code = 3
            for u, e in errors: lines.append(f"UNDECIDED unit {u}: {e[:900]}")
            for e in engine: lines.append(f"CHECKER-DEFECT {e['name']}: {e.get('status')} {e.get('reason', '')[:300]}")
            if not n_proof: lines.append("CHECKER-DEFECT zero obligations generated")
        elif errors or undecided or missing:
            code = 2
            for u, e in errors: lines.append(f"UNDECIDED unit {u}: {e[:600]}")
            for o in undecided: lines.append(f"UNDECIDED {o['name']}: {o.get('reason', '')}")
            for m in missing: lines.append(f"UNDECIDED baseline obligation not generated: {m}")
    if code == 1:
        for u, e in errors: lines.append(f"NOTE undecided unit {u}: {e[:600]}")
        for o in undecided: lines.append(f"NOTE undecided {o['name']}: {o.get('reason', '')}")
    if selftest:
        miss = [x for x in selftest["seeded"] if x.get("as_expected") is False]; fa = [x for x in selftest["harmless"] if x.get("as_expected") is False]
        lines.append(f"SELFTEST seeded changes detected {len([x for x in selftest['seeded'] if x.get('as_expected')])}/{len([x for x in selftest['seeded'] if 'as_expected' in x])}, "
                     f"behaviour-preserving patches green {len([x for x in selftest['harmless'] if x.get('as_expected')])}/{len([x for x in selftest['harmless'] if 'as_expected' in x])}")
        for x in miss: lines.append(f"SELFTEST-MISS {x['patch']} (exit {x['exit']})")
        for x in fa: lines.append(f"SELFTEST-FALSE-ALARM {x['patch']} (exit {x['exit']}) {x['first']}")
    for l in lines: print(l)
    level = LEVELS.get(prop, "proof")
    backends = {}
    for o in discharged: backends[o["backend"]] = backends.get(o["backend"], 0) + 1
    with_smt = [o for o in n_proof if o.get("smt2_sample")]
    pick = [o for o in n_proof if o["kind"] in ("post", "raises", "frame", "inv")][:5] + with_smt[:2]
    samples = [{"obligation": o["name"], "exit": o.get("exit"), "where": o.get("where"), "status": o["status"], "backend": o["backend"], "seconds": o["seconds"],
                **({"smt2 (assumptions ∧ exit condition ∧ ¬clause; unsat = discharged)": o["smt2_sample"]} if o.get("smt2_sample") and o in with_smt[:2] else {})} for o in pick]
    stamp = load_json(os.path.join(ROOT, ".tmp", "lemma_stamp.json"), None)
    cur = __import__("hashlib").sha256(b"".join(open(os.path.join(ROOT, "lemmas", f), "rb").read() for f in sorted(os.listdir(os.path.join(ROOT, "lemmas"))) if f.endswith(".lean"))).hexdigest()[:16]
    lemma_note = (f"Lean lemma library (lemmas/*.lean, hash {cur}) checked by the Lean 4 kernel at setup in {stamp['seconds']}s" if stamp and stamp.get("hash") == cur
                  else f"Lean lemma library (lemmas/*.lean, hash {cur}) NOT re-checked in this sandbox run (bin/lemmas): lemma instances are then assumptions")
    trusted.add(lemma_note)
    cov = {
        "obligations": len(n_proof), "discharged": len(discharged),
        "checker_cmd": f"bin/check {prop} --tier {tier}",
        "trusted_base": sorted(trusted) + [f"bounded stand-in (not proof): {b['name']}: {b.get('summary', '')}" for b in bounded],
        "functions_under_contract": functions,
        "discharged_by_backend": backends,
        "solver_seconds": round(solver_s, 3), "symbolic_execution_seconds": round(exec_s, 3),
        "covers_reached": len([o for o in obls if o["kind"] == "cover" and o["status"] == "discharged"]),
        "covers_with_native_differential_agreement": len([o for o in obls if o["kind"] == "cover" and (o.get("differential") or {}).get("agrees")]),
        "canaries_refuted": len([o for o in obls if o["kind"] == "canary" and o["status"] == "discharged"]),
        "known_findings_confirmed": sorted(k for k in known_present if prop in known_by_id.get(k, {}).get("properties", [known_by_id.get(k, {}).get("property")])),
        "bounded": bounded,
        "selftest": selftest if selftest is not None else "thorough tier only",
        "undecided": [o["name"] for o in undecided], "unit_errors": [u for u, _ in errors],
        "samples": samples,
        "evaluations": len(obls), "distinct_nontrivial": len(names),
        "rule": "one evaluation = one SMT query (obligation, cover or canary) generated from the current /repo source; distinct by obligation name",
        "explanation": explanation(prop),
    }
    ev = {"property_id": prop, "tier": tier, "seed": seed, "level": level, "coverage": cov,
          "assumptions": sorted(trusted), "wall_s": round(wall, 2), "violations": len(violations)}
    if not a.no_evidence and not a.unit:
        with open(os.path.join(ROOT, "evidence", f"{prop}.json"), "w") as f: json.dump(ev, f, indent=1, default=str)
    slow = sorted(((r["seconds"], r["unit"]) for r in results), reverse=True)[:3]
    print("slowest units: " + ", ".join(f"{u} {t:.0f}s" for t, u in slow))
    print(f"[{prop}] tier={tier} units={len(results)} obligations={len(n_proof)} discharged={len(discharged)} "
          f"covers={cov['covers_reached']} canaries={cov['canaries_refuted']} known={len(cov['known_findings_confirmed'])} "
          f"undecided={len(undecided)} errors={len(errors)} wall={wall:.1f}s exit={code}")
    if os.environ.get("VERIF_WRITE_BASELINE") == "1" and code == 0 and not a.unit:
        bpath = os.path.join(ROOT, "baseline_obligations.json")
        b = load_json(bpath, {}); b[prop] = sorted({norm(o["name"]) for o in discharged})
        with open(bpath, "w") as f: json.dump(b, f, indent=0, sort_keys=True)
    return code


def explanation(prop):
    try:
        from specs.manifest_data import CHECKS
        c = CHECKS.get(prop)
        if c: return c["text"] + "  ||  trusted/assumed: " + c["note"]
    except Exception: pass
    return "see DESIGN.md §4 " + prop


_BUILDER_FIELDS = ["_current_axes", "_distance_mode", "_current_params", "_state", "_hooks", "_transformer", "_bounds", "_user_bounds", "@GState"]
CLOSURE = {p: _BUILDER_FIELDS for p in ("C01", "C02", "C03", "C05", "C07", "C20")}
CLOSURE["C20"] = ["_hooks", "_current_params"]
CLOSURE_CLASSES = {p: ["GCodeCore", "GState", "BoundManager"] for p in ("C01", "C02", "C03", "C05", "C07", "C20")}
CLOSURE_CLASSES["C13"] = ["CoordinateTransformer", "Transform"]; CLOSURE_CLASSES["C14"] = ["GCodeCore"]
CLOSURE["C13"] = ["_current_transform", "_transforms_stack", "_named_transforms", "_matrix", "_inverse", "_pivot", "_to_pivot", "_from_pivot"]
CLOSURE["C14"] = ["_writers"]


LEVELS = {"C08": "other", "C12": "other", "C15": "other", "C16": "other"}
EXPLAIN = {}

if __name__ == "__main__":
    sys.exit(main())
