"""bin/check <Cxx> --replay <file>: re-derive one reported violation on the current tree.

A replay file names the failed obligation (unit/kind/clause) and carries what the verifier and the native run showed when it was
written.  Replaying re-runs exactly that unit against the current /repo: the obligation is regenerated from the source, discharged
again, and — where a harness exists — the fresh counter-model is executed on the real objects.  exit 1: still violated (prints the
native observation), exit 0: the obligation now holds, exit 2: undecided."""
import json, sys, os


def run_file(path):
    from pyvc import runner, ctx as ctxmod
    from pyvc.world import World
    d = json.load(open(path))
    name = d.get("obligation", "")
    prop = d.get("property")
    print(f"replaying {name}  (property {prop})")
    if name.startswith("bounded/"):
        from specs import bounded as bmod
        for nm, fn in bmod.BOUNDED.get(prop, []):
            if nm == name.split("/", 1)[1]:
                r = fn("quick", int(os.environ.get("VERIF_SEED", "0") or 0))
                print(json.dumps(r, indent=1, default=str)[:3000])
                return 1 if r.get("status") == "violated" else 0
        print("bounded stand-in not found"); return 2
    if name.startswith("closure/"):
        print("closure obligations are re-derived by the normal check run (AST scan): run bin/check", prop); return 2
    reg = runner.load_specs()
    unit_name = None
    for u in reg:
        if name.startswith(u.name + "/") and (unit_name is None or len(u.name) > len(unit_name)): unit_name = u.name
    if unit_name is None:
        print("no unit matches the obligation name"); return 2
    kf = runner.load_json(os.path.join(runner.ROOT, "known_findings.json"), {"findings": []})
    u = [u for u in reg if u.name == unit_name][0]
    res = ctxmod.run_unit(World(), u, "quick", int(os.environ.get("VERIF_SEED", "0") or 0), [k["id"] for k in kf.get("findings", [])])
    if res.error:
        print("unit could not be executed:", res.error[:800]); return 2
    import re
    norm = runner.norm_name
    hits = [o for o in res.obligations if norm(o["name"]) == norm(name)]
    if not hits:
        print("the obligation is no longer generated for the current source"); return 2
    code = 0
    for o in hits:
        print(f"status now: {o['status']}  backend={o['backend']}  seconds={o['seconds']}")
        rp = o.get("replay") or {}
        for k in ("call", "observed", "emitted_lines", "symbolic_exit", "detail", "reproduced"):
            if k in rp: print(f"   {k}: {str(rp[k])[:1200]}")
        if o["status"] == "violated": code = 1
        elif o["status"] == "undecided" and code == 0: code = 2
    if code == 1: print(f"VIOLATION property={prop} replay={path}")
    return code
