"""Symbolic value domain (DESIGN §2.4).

float/int : VNum(sp, val, isint)   sp: z3 Int  0 finite, 1 NaN, 2 +inf, 3 -inf ; val: z3 Real (meaningful iff sp == 0)
            arithmetic on finite values is exact real arithmetic (assumption A-real); IEEE rules for specials.
Optional  : VOpt(none, inner)
"""
import itertools
from dataclasses import dataclass, field
import z3

T, F = z3.BoolVal(True), z3.BoolVal(False)
_ctr = itertools.count()


class Unsupported(Exception):
    pass


def fresh(prefix, sort):
    return z3.Const(f"{prefix}!{next(_ctr)}", sort)


def AND(*a):
    out = []
    for x in a:
        if x is True or z3.is_true(x): continue
        if x is False or z3.is_false(x): return F
        out.append(x)
    return z3.And(*out) if len(out) > 1 else (out[0] if out else T)


def OR(*a):
    out = []
    for x in a:
        if x is False or z3.is_false(x): continue
        if x is True or z3.is_true(x): return T
        out.append(x)
    return z3.Or(*out) if len(out) > 1 else (out[0] if out else F)


def NOT(a):
    if a is True or z3.is_true(a): return F
    if a is False or z3.is_false(a): return T
    if z3.is_not(a): return a.arg(0)
    return z3.Not(a)


def IMP(a, b): return OR(NOT(a), b)


def ITE(c, a, b):
    if z3.is_true(c): return a
    if z3.is_false(c): return b
    if a is b or (hasattr(a, "eq") and a.eq(b)): return a
    return z3.If(c, a, b)


def simp(x): return z3.simplify(x) if isinstance(x, z3.ExprRef) else x


class SV:
    pass


@dataclass
class VNone(SV):
    pass


NONE = VNone()


@dataclass
class VBool(SV):
    t: object


FIN, NAN, PINF, NINF = 0, 1, 2, 3
_I = [z3.IntVal(i) for i in range(4)]


@dataclass
class VNum(SV):
    sp: object
    val: object
    isint: object = None      # True / False / None (unknown: any Number)

    @property
    def finite(self): return self.sp == 0 if not z3.is_int_value(self.sp) else z3.BoolVal(self.sp.as_long() == 0)
    @property
    def nan(self): return self.sp == 1 if not z3.is_int_value(self.sp) else z3.BoolVal(self.sp.as_long() == 1)
    @property
    def pinf(self): return self.sp == 2 if not z3.is_int_value(self.sp) else z3.BoolVal(self.sp.as_long() == 2)
    @property
    def ninf(self): return self.sp == 3 if not z3.is_int_value(self.sp) else z3.BoolVal(self.sp.as_long() == 3)


def num(v):
    """python number -> VNum"""
    if isinstance(v, bool): return VNum(_I[0], z3.RealVal(int(v)), True)
    if isinstance(v, int): return VNum(_I[0], z3.RealVal(v), True)
    if v != v: return VNum(_I[1], z3.RealVal(0), False)
    if v == float("inf"): return VNum(_I[2], z3.RealVal(0), False)
    if v == float("-inf"): return VNum(_I[3], z3.RealVal(0), False)
    from fractions import Fraction
    fr = Fraction(v)          # exact value of the double
    return VNum(_I[0], z3.Q(fr.numerator, fr.denominator), False)


def sym_num(prefix, isint=None, finite=False):
    """fresh symbolic number; returns (VNum, well-formedness constraint)"""
    val = fresh(prefix, z3.RealSort())
    if finite: return VNum(_I[0], val, isint), T
    sp = fresh(prefix + "_sp", z3.IntSort())
    return VNum(sp, val, isint), AND(sp >= 0, sp <= 3)


@dataclass
class VOpt(SV):
    none: object
    inner: object            # value (shape witness even when none is true) or None


@dataclass
class VEnum(SV):
    cls: str
    idx: object              # z3 Int; == len(members) means "a str that is not a valid value" for EnumArg shapes
    arg: bool = False        # True: raw argument (enum member or str); False: a genuine member


@dataclass
class VStr(SV):
    py: object = None        # concrete python str or None
    term: object = None      # z3 String term (symbolic) or None

    def z(self):
        return self.term if self.term is not None else z3.StringVal(self.py)


@dataclass
class VPoint(SV):
    x: object
    y: object
    z: object                # each VOpt(VNum)

    def items(self): return [self.x, self.y, self.z]


@dataclass
class VTuple(SV):
    items: list


@dataclass
class VList(SV):
    """immutable-by-convention python list value with concrete length (mutations rebind / go through the heap)"""
    items: list


@dataclass
class VDict(SV):
    """dict with concrete string keys and symbolic presence; `upper`: ParamsDict semantics (keys upper-cased)"""
    present: dict
    vals: dict
    upper: bool = False

    def copy(self): return VDict(dict(self.present), dict(self.vals), self.upper)


@dataclass
class VRef(SV):
    cls: str
    oid: int


@dataclass
class VClosure(SV):
    node: object
    env: dict
    owner: object = None
    qual: str = ""


@dataclass
class VClass(SV):
    name: str


_exc_ids = itertools.count(1)


@dataclass
class VExc(SV):
    cls: str
    args: list = field(default_factory=list)
    uid: object = None        # z3 Int identifying the exception object (identity survives merges)

    def __post_init__(self):
        if self.uid is None: self.uid = z3.IntVal(next(_exc_ids))


@dataclass
class VModule(SV):
    name: str


@dataclass
class VFunc(SV):
    """a python-level handler (external contract) usable as a callable value"""
    name: str
    fn: object


@dataclass
class VStmt(SV):
    """abstract G-code statement fragment produced by the formatter contracts (DESIGN §3.1):
    cmds: list of VStr (command words in order), params: VDict or None (address words), comment: value or None,
    raw: list of VStr pieces for statements that are plain text"""
    cmds: list
    params: object = None
    comment: object = None
    has_comment: object = F


@dataclass
class VOpaque(SV):
    """uninterpreted value of a named sort (z3 term)"""
    sort: str
    term: object


def as_opt(v):
    if isinstance(v, VOpt): return v
    if isinstance(v, VNone): return VOpt(T, None)
    return VOpt(F, v)


def opt_num(prefix, isint=None, finite=False):
    n, wf = sym_num(prefix, isint, finite)
    return VOpt(fresh(prefix + "_none", z3.BoolSort()), n), wf


def sym_point(prefix, finite=False):
    cs, wfs = [], []
    for a in "xyz":
        o, wf = opt_num(f"{prefix}_{a}", None, finite); cs.append(o); wfs.append(wf)
    return VPoint(*cs), AND(*wfs)


def known_point(prefix, finite=False):
    cs, wfs = [], []
    for a in "xyz":
        n, wf = sym_num(f"{prefix}_{a}", None, finite); cs.append(VOpt(F, n)); wfs.append(wf)
    return VPoint(*cs), AND(*wfs)


# ---------------------------------------------------------------------------------------------- number semantics
def _c(sp):
    return sp.as_long() if z3.is_int_value(sp) else None


def n_lt(a, b):
    ca, cb = _c(a.sp), _c(b.sp)
    if ca == 0 and cb == 0: return a.val < b.val
    return AND(NOT(a.nan), NOT(b.nan),
               OR(AND(a.finite, b.finite, a.val < b.val), AND(a.ninf, NOT(b.ninf)), AND(NOT(a.pinf), b.pinf)))


def n_le(a, b):
    ca, cb = _c(a.sp), _c(b.sp)
    if ca == 0 and cb == 0: return a.val <= b.val
    return AND(NOT(a.nan), NOT(b.nan), OR(AND(a.finite, b.finite, a.val <= b.val), a.ninf, b.pinf))


def n_eq(a, b):
    ca, cb = _c(a.sp), _c(b.sp)
    if ca == 0 and cb == 0: return a.val == b.val
    return AND(NOT(a.nan), NOT(b.nan), OR(AND(a.finite, b.finite, a.val == b.val), AND(a.sp == b.sp, NOT(a.finite))))


def n_same(a, b):
    """identity of values as python objects would compare with `is`/repr: same special or same finite value
    (NaN is the same as NaN here: used for 'state unchanged' clauses, not for python ==)"""
    ca, cb = _c(a.sp), _c(b.sp)
    if ca == 0 and cb == 0: return a.val == b.val
    return AND(a.sp == b.sp, OR(NOT(a.finite), a.val == b.val))


def n_truth(a):
    return OR(NOT(a.finite), a.val != 0)


def _isint(a, b):
    if a.isint is True and b.isint is True: return True
    if a.isint is False or b.isint is False: return False
    return None


def n_neg(a):
    sp = a.sp
    c = _c(sp)
    if c is not None: nsp = _I[{0: 0, 1: 1, 2: 3, 3: 2}[c]]
    else: nsp = ITE(sp == 2, _I[3], ITE(sp == 3, _I[2], sp))
    return VNum(nsp, -a.val, a.isint)


def n_add(a, b):
    ca, cb = _c(a.sp), _c(b.sp)
    if ca == 0 and cb == 0: return VNum(_I[0], a.val + b.val, _isint(a, b))
    # IEEE: nan if either nan or (+inf) + (-inf); inf if one is inf; else finite sum
    sp = ITE(OR(a.nan, b.nan, AND(a.pinf, b.ninf), AND(a.ninf, b.pinf)), _I[1],
             ITE(OR(a.pinf, b.pinf), _I[2], ITE(OR(a.ninf, b.ninf), _I[3], _I[0])))
    return VNum(sp, a.val + b.val, False if (a.isint is False or b.isint is False) else None)


def n_sub(a, b): return n_add(a, n_neg(b))


def n_mul(a, b):
    ca, cb = _c(a.sp), _c(b.sp)
    if ca == 0 and cb == 0: return VNum(_I[0], a.val * b.val, _isint(a, b))
    # specials: result kind left unconstrained among {nan, +inf, -inf} unless both finite (sound over-approximation)
    k = fresh("mulsp", z3.IntSort())
    sp = ITE(AND(a.finite, b.finite), _I[0], ITE(OR(a.nan, b.nan), _I[1], ITE(AND(k >= 1, k <= 3), k, _I[1])))
    return VNum(sp, a.val * b.val, None)


def n_div(a, b):
    """true division; caller adds the ZeroDivisionError exit"""
    ca, cb = _c(a.sp), _c(b.sp)
    if ca == 0 and cb == 0: return VNum(_I[0], a.val / b.val, False)
    k = fresh("divsp", z3.IntSort())
    # finite / inf = 0 (finite); others unconstrained special
    sp = ITE(AND(a.finite, b.finite), _I[0], ITE(OR(a.nan, b.nan), _I[1],
             ITE(AND(a.finite, NOT(b.finite)), _I[0], ITE(AND(k >= 1, k <= 3), k, _I[1]))))
    val = ITE(AND(a.finite, b.finite), a.val / b.val, z3.RealVal(0))
    return VNum(sp, val, False)


def n_abs(a):
    sp = a.sp; c = _c(sp)
    nsp = _I[{0: 0, 1: 1, 2: 2, 3: 2}[c]] if c is not None else ITE(sp == 3, _I[2], sp)
    return VNum(nsp, ITE(a.val < 0, -a.val, a.val), a.isint)


# ---------------------------------------------------------------------------------------------- merge (value-level ite)
def merge(c, a, b):
    if z3.is_true(c): return a
    if z3.is_false(c): return b
    if a is b: return a
    if isinstance(a, VNone) and isinstance(b, VNone): return a
    if isinstance(a, z3.ExprRef) and isinstance(b, z3.ExprRef): return ITE(c, a, b)       # ghost fields holding raw terms
    if isinstance(a, (VNone, VOpt)) or isinstance(b, (VNone, VOpt)):
        a, b = as_opt(a), as_opt(b)
        if a.inner is None: inner = b.inner
        elif b.inner is None: inner = a.inner
        else: inner = merge(c, a.inner, b.inner)
        return VOpt(ITE(c, a.none, b.none), inner)
    if isinstance(a, VBool) and isinstance(b, VNum): a = VNum(_I[0], ITE(a.t, z3.RealVal(1), z3.RealVal(0)), True)
    if isinstance(b, VBool) and isinstance(a, VNum): b = VNum(_I[0], ITE(b.t, z3.RealVal(1), z3.RealVal(0)), True)
    if type(a) != type(b): raise Unsupported(f"merge {type(a).__name__}/{type(b).__name__}")
    if isinstance(a, VNum):
        ii = a.isint if a.isint == b.isint else None
        return VNum(ITE(c, a.sp, b.sp), ITE(c, a.val, b.val), ii)
    if isinstance(a, VBool): return VBool(ITE(c, a.t, b.t))
    if isinstance(a, VEnum):
        if a.cls != b.cls: raise Unsupported(f"merge enums {a.cls}/{b.cls}")
        return VEnum(a.cls, ITE(c, a.idx, b.idx), a.arg or b.arg)
    if isinstance(a, VPoint): return VPoint(merge(c, a.x, b.x), merge(c, a.y, b.y), merge(c, a.z, b.z))
    if isinstance(a, (VTuple, VList)):
        if len(a.items) != len(b.items) or any(isinstance(i, tuple) for i in a.items + b.items):
            if isinstance(a, VTuple): raise Unsupported("merge tuples of different length")
            # lists of different length: common positions merged, the rest kept as guarded elements ("$g", presence, value)
            ga = [i if isinstance(i, tuple) else ("$g", T, i) for i in a.items]
            gb = [i if isinstance(i, tuple) else ("$g", T, i) for i in b.items]
            out = []
            for k in range(max(len(ga), len(gb))):
                if k < len(ga) and k < len(gb):
                    out.append(("$g", simp(ITE(c, ga[k][1], gb[k][1])), merge(c, ga[k][2], gb[k][2])))
                elif k < len(ga): out.append(("$g", simp(AND(c, ga[k][1])), ga[k][2]))
                else: out.append(("$g", simp(AND(NOT(c), gb[k][1])), gb[k][2]))
            return VList(out)
        return type(a)([merge(c, x, y) for x, y in zip(a.items, b.items)])
    if isinstance(a, VDict):
        keys = list(dict.fromkeys(list(a.present) + list(b.present))); pres, vals = {}, {}
        for k in keys:
            pa, pb = a.present.get(k, F), b.present.get(k, F)
            pres[k] = ITE(c, pa, pb)
            va, vb = a.vals.get(k), b.vals.get(k)
            if va is None: vals[k] = vb
            elif vb is None: vals[k] = va
            else:
                try: vals[k] = merge(c, va, vb)
                except Unsupported:
                    # shapes differ under disjoint presence: keep the one whose presence can hold
                    if z3.is_false(simp(pa)): vals[k] = vb
                    elif z3.is_false(simp(pb)): vals[k] = va
                    else: raise
        return VDict(pres, vals, a.upper or b.upper)
    if isinstance(a, VRef):
        if a.oid != b.oid: raise Unsupported("merge distinct refs")
        return a
    if isinstance(a, VStr):
        if a.py is not None and a.py == b.py: return a
        return VStr(None, ITE(c, a.z(), b.z()))
    if isinstance(a, VStmt):
        if len(a.cmds) != len(b.cmds): raise Unsupported("merge stmts with different command counts")
        cm = None
        if a.comment is not None or b.comment is not None:
            cm = a.comment if b.comment is None else b.comment if a.comment is None else merge(c, a.comment, b.comment)
        pa = a.params if a.params is not None else VDict({}, {})
        pb = b.params if b.params is not None else VDict({}, {})
        return VStmt([merge(c, x, y) for x, y in zip(a.cmds, b.cmds)], merge(c, pa, pb), cm, ITE(c, a.has_comment, b.has_comment))
    if isinstance(a, VOpaque):
        if a.sort != b.sort: raise Unsupported("merge opaque sorts")
        return VOpaque(a.sort, ITE(c, a.term, b.term))
    if isinstance(a, VExc):
        if a.cls != b.cls: raise Unsupported("merge exception objects of different classes")
        return VExc(a.cls, a.args, ITE(c, a.uid, b.uid))
    if isinstance(a, (VClosure, VClass, VModule, VFunc)): return a
    raise Unsupported(f"merge {type(a).__name__}")


# ---------------------------------------------------------------------------------------------- equalities used by specs
def v_same(a, b):
    """structural identity of two values (used for `unchanged` / frame clauses); NaN same as NaN"""
    if a is b: return T
    if isinstance(a, z3.ExprRef) and isinstance(b, z3.ExprRef): return a == b
    if isinstance(a, VNone) and isinstance(b, VNone): return T
    if isinstance(a, (VNone, VOpt)) or isinstance(b, (VNone, VOpt)):
        a, b = as_opt(a), as_opt(b)
        if a.inner is None or b.inner is None: return AND(a.none, b.none)
        return OR(AND(a.none, b.none), AND(NOT(a.none), NOT(b.none), v_same(a.inner, b.inner)))
    if type(a) != type(b): return F
    if isinstance(a, VNum): return n_same(a, b)
    if isinstance(a, VBool): return a.t == b.t
    if isinstance(a, VEnum): return a.idx == b.idx if a.cls == b.cls else F
    if isinstance(a, VPoint): return AND(*[v_same(x, y) for x, y in zip(a.items(), b.items())])
    if isinstance(a, (VTuple, VList)):
        if len(a.items) != len(b.items): return F
        return AND(*[v_same(x, y) for x, y in zip(a.items, b.items)])
    if isinstance(a, VDict):
        cs = []
        for k in dict.fromkeys(list(a.present) + list(b.present)):
            pa, pb = a.present.get(k, F), b.present.get(k, F)
            cs.append(pa == pb if not (pa is pb) else T)
            if k in a.vals and k in b.vals and a.vals[k] is not None and b.vals[k] is not None:
                cs.append(IMP(AND(pa, pb), v_same(a.vals[k], b.vals[k])))
        return AND(*cs)
    if isinstance(a, VRef): return z3.BoolVal(a.oid == b.oid)
    if isinstance(a, VStr):
        if a.py is not None and b.py is not None: return z3.BoolVal(a.py == b.py)
        return a.z() == b.z()
    if isinstance(a, VOpaque): return a.term == b.term
    if isinstance(a, VExc): return a.uid == b.uid               # exception objects by identity
    if isinstance(a, VStmt):
        return AND(z3.BoolVal(len(a.cmds) == len(b.cmds)), *[v_same(x, y) for x, y in zip(a.cmds, b.cmds)],
                   v_same(a.params or VDict({}, {}), b.params or VDict({}, {})), a.has_comment == b.has_comment)
    raise Unsupported(f"v_same {type(a).__name__}")
