"""Assumed contracts for the numpy / scipy operations the geometry code uses (A-numpy, DESIGN §2.4/§2.5).

Arrays are heap objects VRef('ndarray') whose '$a' field holds a python list (1-D) or list of lists (2-D) of finite
reals (VNum with sp == 0).  `@`, np.eye, np.diag, np.outer, elementwise +,-,*,/ with scalars, slicing loads/stores and
.copy() have their mathematical meaning.  linalg.inv, linalg.norm and scipy's Rotation are specified by their defining
equations over fresh symbols (assumptions, listed in the evidence)."""
import ast
import z3
from pyvc.values import *

R0 = z3.IntVal(0)


def fin(t): return VNum(R0, t, False)


def arr(x, st, data):
    return st.alloc("ndarray", {"$a": data})


def data_of(x, st, v, n=None):
    if isinstance(v, VRef):
        o = st.heap.get(v.oid, {})
        if "$a" in o: return o["$a"]
        if "$l" in o: return [x.as_num(st, i, n) if not isinstance(i, (VRef, VList, VTuple)) else data_of(x, st, i, n) for i in o["$l"].items]
    if isinstance(v, (VList, VTuple)):
        return [x.as_num(st, i, n) if not isinstance(i, (VRef, VList, VTuple)) else data_of(x, st, i, n) for i in v.items]
    if isinstance(v, VPoint): return [x.as_num(st, c, n) for c in v.items()]
    raise Unsupported(f"array data from {type(v).__name__} @ {x.where(n)}")


def is_arr(st, v): return isinstance(v, VRef) and "$a" in st.heap.get(v.oid, {})
def is2d(d): return len(d) > 0 and isinstance(d[0], list)


def matmul(a, b):
    if is2d(a) and is2d(b):
        return [[fin(simp(z3.Sum([a[i][k].val * b[k][j].val for k in range(len(b))]))) for j in range(len(b[0]))] for i in range(len(a))]
    if is2d(a): return [fin(simp(z3.Sum([a[i][k].val * b[k].val for k in range(len(b))]))) for i in range(len(a))]
    raise Unsupported("matmul shapes")


def np_eye(x, args, kwargs, st, n):
    k = x.concrete(args[0])
    return arr(x, st, [[num(1.0 if i == j else 0.0) for j in range(k)] for i in range(k)])


def np_array(x, args, kwargs, st, n): return arr(x, st, data_of(x, st, args[0], n))


def np_diag(x, args, kwargs, st, n):
    d = data_of(x, st, args[0], n); k = len(d)
    return arr(x, st, [[d[i] if i == j else num(0.0) for j in range(k)] for i in range(k)])


def np_outer(x, args, kwargs, st, n):
    a, b = data_of(x, st, args[0], n), data_of(x, st, args[1], n)
    return arr(x, st, [[n_mul(p, q) for q in b] for p in a])


def np_radians(x, args, kwargs, st, n):
    from fractions import Fraction
    import math
    f = Fraction(math.pi) / 180
    return n_mul(x.as_num(st, args[0], n), VNum(R0, z3.Q(f.numerator, f.denominator), False))


def linalg_norm(x, args, kwargs, st, n):
    d = data_of(x, st, args[0], n)
    cs = [x.concrete(c) for c in d]
    if all(c is not None for c in cs):
        from fractions import Fraction
        import math
        tot = sum(Fraction(c) ** 2 for c in cs)
        rn, rd = math.isqrt(tot.numerator), math.isqrt(tot.denominator)
        if rn * rn == tot.numerator and rd * rd == tot.denominator:          # exact rational norm of a concrete vector
            if hasattr(x, "ghost"): x.ghost["norm"] = z3.Q(rn, rd)
            return fin(z3.Q(rn, rd))
    r = fresh("norm", z3.RealSort())
    x.assume.append(AND(r >= 0, r * r == z3.Sum([c.val * c.val for c in d])))
    if hasattr(x, "ghost"): x.ghost["norm"] = r
    return fin(r)


def linalg_inv(x, args, kwargs, st, n):
    """assumed: returns R with R·M == I == M·R, or raises LinAlgError (singular input)"""
    m = data_of(x, st, args[0], n); k = len(m)
    sing = fresh("singular", z3.BoolSort())
    x.raise_if(st, sing, "LinAlgError", n)
    R = [[fin(fresh(f"inv{i}{j}", z3.RealSort())) for j in range(k)] for i in range(k)]
    RM, MR = matmul(R, m), matmul(m, R)
    eqs = []
    for i in range(k):
        for j in range(k):
            one = z3.RealVal(1 if i == j else 0)
            eqs += [RM[i][j].val == one, MR[i][j].val == one]
    x.assume.append(IMP(NOT(sing), AND(*eqs)))
    return arr(x, st, R)


def rot_from_rotvec(x, args, kwargs, st, n):
    v = data_of(x, st, args[0], n)
    return st.alloc("Rotation", {"$rotvec": v})


def rot_as_matrix(x, recv, args, kwargs, st):
    """assumed (scipy): the matrix Q of a rotation vector v is orthogonal and fixes v"""
    v = st.heap[recv.oid]["$rotvec"]
    Q = [[fin(fresh(f"rot{i}{j}", z3.RealSort())) for j in range(3)] for i in range(3)]
    Qt = [[Q[j][i] for j in range(3)] for i in range(3)]
    QQt = matmul(Q, Qt)
    eqs = [QQt[i][j].val == (1 if i == j else 0) for i in range(3) for j in range(3)]
    Qv = matmul(Q, v)
    eqs += [Qv[i].val == v[i].val for i in range(3)]
    x.assume.append(AND(*eqs))
    return arr(x, st, Q)


def copy_deepcopy(x, args, kwargs, st, n):
    """assumed: fresh objects, equal field values, nothing shared with the original"""
    def cp(v):
        if isinstance(v, VRef):
            o = st.heap[v.oid]
            new = {}
            for k, f in o.items():
                if k == "$a": new[k] = [list(r) if isinstance(r, list) else r for r in f]
                elif k == "$l": new[k] = VList([cp(i) for i in f.items])
                elif k == "$d": new[k] = VDict(dict(f.present), {kk: cp(vv) for kk, vv in f.vals.items()}, f.upper)
                else: new[k] = cp(f)
            return st.alloc(v.cls, new)
        if isinstance(v, (VTuple, VList)): return type(v)([cp(i) for i in v.items])
        return v
    return cp(args[0])


# ---------------------------------------------------------------------------------------------- hooks used by the executor
def _idx(x, node, st, length):
    """one subscript component -> list of indices"""
    if isinstance(node, ast.Slice):
        lo = x.concrete(x.ev(node.lower, st)) if node.lower else None
        hi = x.concrete(x.ev(node.upper, st)) if node.upper else None
        return list(range(length))[lo:hi], True
    i = x.concrete(x.ev(node, st))
    if i is None: raise Unsupported("symbolic array index")
    return [range(length)[i]], False


def arr_load(x, base, slice_node, st, n):
    d = st.heap[base.oid]["$a"]
    if isinstance(slice_node, ast.Tuple):
        ri, rs = _idx(x, slice_node.elts[0], st, len(d)); ci, cs = _idx(x, slice_node.elts[1], st, len(d[0]))
        if not rs and not cs: return d[ri[0]][ci[0]]
        if rs and cs: return arr(x, st, [[d[i][j] for j in ci] for i in ri])
        if rs: return arr(x, st, [d[i][ci[0]] for i in ri])
        return arr(x, st, [d[ri[0]][j] for j in ci])
    ri, rs = _idx(x, slice_node, st, len(d))
    if rs: return arr(x, st, [d[i] if not is2d(d) else list(d[i]) for i in ri])
    r = d[ri[0]]
    return arr(x, st, list(r)) if isinstance(r, list) else r


def arr_store(x, base, slice_node, v, st, n):
    d = st.heap[base.oid]["$a"]
    d = [list(r) if isinstance(r, list) else r for r in d]
    src = data_of(x, st, v, n) if not isinstance(v, (VNum, VOpt)) else None
    if isinstance(slice_node, ast.Tuple):
        ri, rs = _idx(x, slice_node.elts[0], st, len(d)); ci, cs = _idx(x, slice_node.elts[1], st, len(d[0]))
        for a, i in enumerate(ri):
            for b_, j in enumerate(ci):
                if src is None: d[i][j] = x.as_num(st, v, n)
                elif rs and cs: d[i][j] = src[a][b_]
                elif rs: d[i][j] = src[a]
                else: d[i][j] = src[b_]
    else:
        ri, rs = _idx(x, slice_node, st, len(d))
        for a, i in enumerate(ri): d[i] = (src[a] if rs else src) if src is not None else x.as_num(st, v, n)
    st.heap[base.oid]["$a"] = d


def arr_binop(x, op, a, b, st, n):
    A = st.heap[a.oid]["$a"] if is_arr(st, a) else None
    Bm = st.heap[b.oid]["$a"] if is_arr(st, b) else None
    if isinstance(op, ast.MatMult): return arr(x, st, matmul(A, Bm))
    f = {ast.Add: n_add, ast.Sub: n_sub, ast.Mult: n_mul, ast.Div: n_div}.get(type(op))
    if f is None: raise Unsupported("array op")
    def ew(p, q):
        if isinstance(p, list) and isinstance(q, list): return [ew(i, j) for i, j in zip(p, q)]
        if isinstance(p, list): return [ew(i, q) for i in p]
        if isinstance(q, list): return [ew(p, j) for j in q]
        return f(p, q)
    pa = A if A is not None else x.as_num(st, a, n)
    pb = Bm if Bm is not None else x.as_num(st, b, n)
    if isinstance(op, ast.Div) and not isinstance(pb, list): x.raise_if(st, pb.val == 0, "ZeroDivisionError", n)
    return arr(x, st, ew(pa, pb))


def arr_attr(x, base, attr, st, n):
    d = st.heap[base.oid]["$a"]
    if attr == "shape": return VTuple([num(len(d))] + ([num(len(d[0]))] if is2d(d) else []))
    if attr == "copy": return VFunc("copy", lambda x_, args, kwargs, st_, n_: arr(x_, st_, [list(r) if isinstance(r, list) else r for r in st_.heap[base.oid]["$a"]]))
    if attr == "T": return arr(x, st, [[d[j][i] for j in range(len(d))] for i in range(len(d[0]))])
    raise Unsupported(f"ndarray.{attr}")


def install(x):
    x.ext_names["np"] = VModule("np"); x.ext_names["linalg"] = VModule("linalg"); x.ext_names["Rotation"] = VModule("Rotation")
    x.ext_names["copy"] = VModule("copy")
    x.ext["np.eye"] = np_eye; x.ext["np.array"] = np_array; x.ext["np.diag"] = np_diag; x.ext["np.outer"] = np_outer
    x.ext["np.radians"] = np_radians
    x.ext["linalg.norm"] = linalg_norm; x.ext["linalg.inv"] = linalg_inv
    x.ext["Rotation.from_rotvec"] = rot_from_rotvec
    x.contracts[("Rotation", "as_matrix")] = rot_as_matrix
    x.ext["copy.deepcopy"] = copy_deepcopy
    x.ext["arr_load"] = arr_load; x.ext["arr_store"] = arr_store; x.ext["arr_binop"] = arr_binop; x.ext["arr_attr"] = arr_attr
