"""Context managers of GCodeCore (absolute_mode, relative_mode, current_transform, named_transform, move_hook):
client code `with g.<cm>(): <body>` is executed with the generator split at its yield (DESIGN §2.2); the body mutates
what the manager is supposed to protect and raises under a symbolic flag, so both the normal and the exceptional
path of the body are covered."""
import z3
from pyvc.values import *
from pyvc.state import State
from pyvc.ctx import unit
from specs.common import *
from specs.dsl import *
from specs import ghost, harness, native
from specs.ghost import Machine, emitted, cmd_is
from specs import transform_units as TU


def _tx_cm(name, with_src, props=("C13",)):
    @unit(f"GCodeCore.{name}[with-body mutates, pushes, may raise]", list(props))
    def u(ctx):
        st = State(T, {}, {}, []); x = ctx.executor()
        tr, wf, info = TU.mk_transformer(x, st)
        g = st.alloc("GCodeCore", {"_transformer": tr, "_logger": NONE})
        flag = VBool(fresh("body_raises", z3.BoolSort()))
        ctx.assume(wf, TU.named(st.heap, tr).present["a"])
        h0 = st.snap()
        st.env.update(g=g, flag=flag)
        src = (f"with g.{with_src}:\n"
               "    g.transform.translate(1.0, 2.0, 3.0)\n"
               "    g.transform.save_state()\n"
               "    g.transform.scale(2.0)\n"
               "    g.transform.restore_state()\n"
               "    g.transform.restore_state()\n"
               "    g.transform.translate(5.0, 0.0, 0.0)\n"
               "    if flag:\n"
               "        raise ValueError('body failed')\n")
        ctx.under_contract(f"GCodeCore.{name}"); ctx.under_contract("CoordinateTransformer._copy_state"); ctx.under_contract("CoordinateTransformer._revert_state")
        exits = x.run_snippet(src, st, qual=f"<client of {name}>", mod="gscrib.gcode_core")
        ctx.replayer = native.cm_replayer(ctx.w, name, with_src, src, tr, h0, info, flag)
        ctx.res.inlined = sorted(set(ctx.res.inlined) | x.inlined)
        hint = TU.HINTS[-8:] + [TU.mat_eq(info["v"]["M"], TU.I4), TU.mat_eq(info["v"]["R"], TU.I4)]
        ctx.default_hint = hint
        for i, e in enumerate(exits):
            ctx.cover(f"reach:{e.kind}{':' + e.payload if e.kind == 'raise' else ''}#{i}", T, e, None, hint)
        want = info["nrefs"]["a"] if name == "named_transform" else None
        for e in exits:
            tag = f"{e.kind}{':' + e.payload if e.kind == 'raise' else ''}@{e.where}"
            if e.kind == "raise" and e.payload == "LinAlgError": continue
            if e.kind == "raise":
                ctx.check(f"only the body's own exception escapes [{tag}]", AND(z3.BoolVal(e.payload == "ValueError"), flag.t), e, None, "raises")
            else:
                ctx.check(f"normal exit only when the body did not raise [{tag}]", NOT(flag.t), e, None, "post")
            cur1 = TU.cur_of(e.heap, tr)
            ctx.check(f"C13 the transform in effect on entry is back [{tag}]", TU.same_transform(h0, info["cur"], e.heap, cur1), e, None, "post")
            s0, s1 = TU.stack_items(h0, tr), TU.stack_items(e.heap, tr)
            ctx.check(f"C13 the stack in effect on entry is back (same length, same mappings, same hidden prefix) [{tag}]",
                      AND(z3.BoolVal(len(s0) == len(s1)), *[TU.same_transform(h0, a, e.heap, b) for a, b in zip(s0, s1)],
                          v_same(h0[info["stack"].oid]["$plen"], e.heap[e.heap[tr.oid]["_transforms_stack"].oid]["$plen"])), e, None, "post")
            ctx.check(f"C13 named states untouched [{tag}]", AND(*[TU.frame_transform(h0, e.heap, r) for r in info["nrefs"].values()],
                      TU.named(e.heap, tr).present["a"], TU.named(e.heap, tr).present["b"] == TU.named(h0, tr).present["b"]), e, None, "frame")
            ctx.check(f"separation preserved [{tag}]", TU.separated(e.heap, tr), e, None, "inv")
        ctx.canary("canary:body never raises", NOT(flag.t), hint=hint)
    return u


_tx_cm("current_transform", "current_transform()")
_tx_cm("named_transform", "named_transform('a')")


@unit("GCodeCore.named_transform[missing name]", ["C13"])
def u_named_missing(ctx):
    st = State(T, {}, {}, []); x = ctx.executor()
    tr, wf, info = TU.mk_transformer(x, st)
    g = st.alloc("GCodeCore", {"_transformer": tr, "_logger": NONE})
    ctx.assume(wf, NOT(TU.named(st.heap, tr).present["a"]))
    h0 = st.snap(); st.env.update(g=g)
    ctx.under_contract("GCodeCore.named_transform")
    exits = x.run_snippet("with g.named_transform('a'):\n    g.transform.translate(1.0, 0.0, 0.0)\n", st, qual="<client of named_transform>", mod="gscrib.gcode_core")
    for e in exits:
        ctx.check("a missing name raises KeyError before the body runs and leaves the transformer as it was",
                  AND(z3.BoolVal(e.kind == "raise" and e.payload == "KeyError"), TU.same_transform(h0, info["cur"], e.heap, TU.cur_of(e.heap, tr)),
                      z3.BoolVal(TU.cur_of(e.heap, tr).oid == info["cur"].oid)), e, None, "raises")


# ---------------------------------------------------------------------------------------------- distance-mode managers
def _mode_cm(name, target_rel):
    @unit(f"GCodeBuilder.{name}[with-body moves, may raise]", ["C01", "C11", "C05", "C07"])
    def u(ctx):
        st = State(T, {}, {}, [])
        g, wf, info = mk_builder(st, ctx.w)
        sref = info["state"]
        x = ctx.executor()
        M0, wfM = Machine.fresh()
        o = st.heap[g.oid]
        rel_idx = ctx.w.enum_index("DistanceMode", "RELATIVE")
        ctx.assume(wf, wfM, wf_tool(ctx.w, st.heap, sref), ghost.agree(M0, o["_current_axes"], o["_distance_mode"].idx, rel_idx))
        flag = VBool(fresh("body_raises", z3.BoolSort())); flag2 = VBool(fresh("body_switches_mode", z3.BoolSort()))
        other, _ = sym_enum("DistanceMode", ctx.w); ctx.assume(other.idx >= 0, other.idx < 2)
        a, _ = sym_num("a", finite=True)
        h0 = st.snap()
        st.env.update(g=g, flag=flag, flag2=flag2, other=other, a=a)
        src = (f"with g.{name}():\n"
               "    g.move(x=a)\n"
               "    if flag2:\n"
               "        g.set_distance_mode(other)\n"
               "    if flag:\n"
               "        raise KeyError('body failed')\n")
        ctx.under_contract(f"GCodeCore.{name}")
        exits = x.run_snippet(src, st, qual=f"<client of {name}>", mod="gscrib.gcode_core")
        ctx.res.inlined = sorted(set(ctx.res.inlined) | x.inlined)
        covers(ctx, exits)
        was_rel = h0[g.oid]["_distance_mode"].idx == rel_idx
        for e in exits:
            tag = f"{e.kind}{':' + e.payload if e.kind == 'raise' else ''}@{e.where}"
            o1 = e.heap[g.oid]
            ctx.check(f"C01 distance mode on exit is the mode on entry (builder and state) [{tag}]",
                      AND(o1["_distance_mode"].idx == h0[g.oid]["_distance_mode"].idx, e.heap[sref.oid]["_current_distance_mode"].idx == h0[g.oid]["_distance_mode"].idx), e, None, "post")
            M1 = ghost.run_machine(M0, e.log)
            ctx.check(f"C01 machine == builder position/mode after the with-statement [{tag}]", ghost.agree(M1, o1["_current_axes"], o1["_distance_mode"].idx, rel_idx), e, None, "inv")
            blocks = emitted(e.log)
            switched = NOT(was_rel) if target_rel else was_rel
            modes = [g_ for g_, s in blocks if len(s.cmds) == 1 and s.cmds[0].py is None or (len(s.cmds) == 1 and s.cmds[0].py in ("G90", "G91"))]
            n_mode = z3.Sum([ITE(AND(g_, cmd_is(s, "G90", "G91")), z3.IntVal(1), z3.IntVal(0)) for g_, s in blocks]) if blocks else z3.IntVal(0)
            ctx.check(f"C01 mode words are emitted only on change: none if already in the target mode, else exactly two (switch and restore) [{tag}]",
                      IMP(NOT(flag2.t), n_mode == ITE(switched, z3.IntVal(2), z3.IntVal(0))), e, None, "post")
            if e.kind == "return":
                cur = h0[g.oid]["_current_axes"]
                c0 = ITE(cur.x.none, z3.RealVal(0), cur.x.inner.val)
                want = (c0 + a.val) if target_rel else a.val
                ctx.check(f"C11 the move inside the manager is interpreted in the manager's mode [{tag}]",
                          AND(NOT(o1["_current_axes"].x.none), o1["_current_axes"].x.inner.val == want), e, None, "post")
        ctx.canary("canary:body never raises", NOT(flag.t))
    return u


_mode_cm("absolute_mode", False)
_mode_cm("relative_mode", True)
