"""Contracts on the public methods of GCodeBuilder / GCodeCore (gscrib/gcode_builder.py, gscrib/gcode_core.py).

Every method is executed once from an arbitrary well-formed builder state (all tracked fields symbolic) with the
callees inlined down to the assumed contracts of specs/common.py.  The same generic clauses are generated for
every method (C01 agreement, C02 safety, C03 bounds, C05 no-effect-on-reject, C07 mirror); method-specific clauses
(exact raises-iff, exact emission) follow."""
import z3
from pyvc.values import *
from pyvc.state import State
from pyvc.ctx import unit
from specs.common import *
from specs.dsl import *
from specs import harness, ghost, modal
from specs.ghost import Machine, cmd_is, LINEAR, PROBE, emitted
from specs.state_units import bound_ok, fld, member, ZERO

GEN = ["C01", "C02", "C03", "C05", "C07"]


class B:
    """one symbolic run of a builder method"""
    def __init__(self, ctx, method, mk_args, transform="identity", hooks=0, cls="GCodeBuilder", fresh_params=False):
        self.ctx, self.method, self.w = ctx, method, ctx.w
        st = State(T, {}, {}, [])
        self.g, wf, self.info = mk_builder(st, ctx.w, transform, hooks, cls, fresh_params=fresh_params)
        self.sref, self.pref = self.info["state"], self.info["params"]
        args, kwargs, wfa, reals = mk_args(ctx, st)
        self.args, self.kwargs = args, kwargs
        ctx.assume(wf, wfa, wf_tool(ctx.w, st.heap, self.sref))
        ctx.input_reals = self.info["reals"] + reals
        # ghost machine agreeing with the builder before the call (C01 / C04 induction hypothesis)
        self.M0, wfM = Machine.fresh()
        ctx.assume(wfM)
        o = st.heap[self.g.oid]
        self.rel_idx = ctx.w.enum_index("DistanceMode", "RELATIVE")
        if transform == "identity":
            ctx.assume(ghost.agree(self.M0, o["_current_axes"], o["_distance_mode"].idx, self.rel_idx))
        else:
            tr = st.heap[self.info["transformer"].oid]
            # C04 hypothesis "once machine and builder agree": the tracked position is fully known and the machine is at its image
            ctx.assume(ghost.agree_T(self.M0, o["_current_axes"], tr["$A"], tr["$b"]),
                       AND(*[NOT(c.none) for c in o["_current_axes"].items()]),
                       self.M0.rel == (o["_distance_mode"].idx == self.rel_idx))
        self.transform = transform
        self.h0 = st.snap()
        self.ms0 = modal.modal_of_state(ctx.w, self.h0, self.sref, self.pref, PARAM_KEYS)
        x = ctx.executor()
        self.x = x
        kw = {"**": kwargs} if kwargs is not None else {}
        self.exits = ctx.run(x, f"{cls}.{method}", [self.g] + args, kw, st)
        ctx.replayer = harness.builder_method_replayer(ctx, ctx.w, method, self.g, self.info, self.h0, args, kwargs, self.exits)
        hint = None
        if transform != "identity":      # witness region for the reachability queries: an invertible diagonal-plus-shift map (keeps them linear)
            tr = self.h0[self.info["transformer"].oid]
            hint = [tr["$A"][i][j].val == ((2, 3, 5)[i] if i == j else 0) for i in range(3) for j in range(3)] + [tr["$b"][i].val == 1 for i in range(3)]
        covers(ctx, self.exits, hint=hint)
        exits_partition(ctx, self.exits, props=GEN + ["C04"])

    # ------------------------------------------------------------------ generic clauses
    def generic(self, skip=(), known=None):
        ctx, w = self.ctx, self.w
        known = known or {}
        for e in self.exits:
            tag = f"{e.kind}{':' + e.payload if e.kind == 'raise' else ''}@{e.where}"
            blocks = emitted(e.log)
            o1 = e.heap[self.g.oid]
            # ---- C05: a rejected call leaves no trace
            if e.kind == "raise" and "C05" not in skip:
                kf = known.get("C05")
                k = kf(e) if callable(kf) else kf
                ctx.check(f"C05 builder fields unchanged [{tag}]",
                          unchanged_obj(self.h0, e.heap, self.g, fields=["_current_axes", "_distance_mode", "_direction", "_current_params", "_state", "_hooks", "_transformer"]),
                          e, ["C05"], "frame", k)
                ctx.check(f"C05 state object unchanged [{tag}]", unchanged_obj(self.h0, e.heap, self.sref), e, ["C05"], "frame", k)
                ctx.check(f"C05 bounds table unchanged [{tag}]", unchanged_obj(self.h0, e.heap, self.info["bounds"]), e, ["C05"], "frame", k)
                ctx.check(f"C05 nothing emitted [{tag}]", AND(*[NOT(g) for g, _ in blocks]), e, ["C05"], "frame", k)
            # ---- C01: the emitted program reproduces the tracked position and distance mode
            if "C01" not in skip and self.transform == "identity":
                M1 = ghost.run_machine(self.M0, e.log)
                kf = known.get("C01"); k = kf(e) if callable(kf) else kf
                ctx.check(f"C01 machine==builder position/mode [{tag}]", ghost.agree(M1, o1["_current_axes"], o1["_distance_mode"].idx, self.rel_idx), e, ["C01", "C03", "C11"], "inv", k)      # C11 compares MACHINE positions; C03's target clause is stated relative to this agreement
            if "C04" not in skip and self.transform != "identity":
                M1 = ghost.run_machine(self.M0, e.log)
                tr = self.h0[self.info["transformer"].oid]
                ctx.check(f"C04 machine == transform(builder position), same mode [{tag}]",
                          AND(ghost.agree_T(M1, o1["_current_axes"], tr["$A"], tr["$b"]), M1.rel == (o1["_distance_mode"].idx == self.rel_idx)), e, ["C04"], "inv")
            # ---- wf: core and state distance modes stay equal; tool flags stay consistent
            ctx.check(f"wf core/state distance mode [{tag}]", o1["_distance_mode"].idx == e.heap[self.sref.oid]["_current_distance_mode"].idx, e, ["C01", "C07", "C05"], "inv")
            ctx.check(f"wf tool flags consistent [{tag}]", wf_tool(w, e.heap, self.sref), e, ["C07", "C02", "C06"], "inv", known.get("wf_tool"))
            ctx.check(f"wf tracked positions finite [{tag}]", AND(*[OR(c.none, c.inner.finite) for c in list(o1["_current_axes"].items()) + list(e.heap[self.sref.oid]["_current_axes"].items())]), e, ["C01", "C03"], "inv")
            sp1, cp1 = e.heap[self.sref.oid]["_current_params"], o1["_current_params"]
            both_empty = AND(*[NOT(p) for p in e.heap[sp1.oid]["$d"].present.values()], *[NOT(p) for p in e.heap[cp1.oid]["$d"].present.values()])
            ctx.check(f"wf params shared (or both still empty, as in a fresh builder) [{tag}]", OR(z3.BoolVal(sp1.oid == cp1.oid), both_empty), e, ["C07", "C20"], "inv")
            # ---- C02 safety and C03 bounds on every emitted block, in the modal / machine state it is emitted in
            ms, M = self.ms0, self.M0
            for i, (g, s) in enumerate(blocks):
                if "C02" not in skip:
                    ctx.check(f"C02 block#{i} safe [{tag}]", NOT(modal.unsafe(ms, g, s)), e, ["C02"], "post")
                if "C03" not in skip:
                    kf = known.get("C03"); k = kf(e) if callable(kf) else kf
                    ctx.check(f"C03 block#{i} inside limits [{tag}]", IMP(g, self.block_in_bounds(ms, M, s)), e, ["C03"], "post", k)
                ms = modal.modal_step(ms, g, s); M = ghost.mstep(M, g, s)
            # ---- C07 mirror
            if "C07" not in skip:
                for name, cl in modal.mirror_clauses(w, ms, e.heap, self.sref, self.pref).items():
                    kf = known.get("C07"); k = kf(e) if callable(kf) else kf
                    ctx.check(f"C07 mirror {name} [{tag}]", cl, e, ["C07"] + (["C02"] if name in ("tool-active", "coolant-active") else []), "inv", k)

    def block_in_bounds(self, ms, M, s):
        """C03 for one block: every F/S/T/temperature word is inside its range and, for motion blocks, every commanded
        axis target (absolute word, or machine coordinate + word in relative mode) is inside the axes box"""
        h0, info = self.h0, self.info
        def lim(key, v): return bound_ok(h0, info, key, v)
        cs = []
        bare = z3.BoolVal(len(s.cmds) == 0)
        motion = OR(cmd_is(s, *LINEAR), cmd_is(s, *PROBE))
        for L, g, v in words_of(s.params):
            vo = as_opt(v)
            if not isinstance(vo.inner, VNum): continue
            val = vo.inner; pres = AND(g, NOT(vo.none))
            if L == "F": cs.append(IMP(AND(pres, OR(bare, motion)), lim("feed-rate", val)))
            if L == "S":
                cs.append(IMP(AND(pres, OR(bare, motion, cmd_is(s, "M03", "M04"))), lim("tool-power", val)))
                cs.append(IMP(AND(pres, cmd_is(s, "M104", "M109")), lim("hotend-temperature", val)))
                cs.append(IMP(AND(pres, cmd_is(s, "M140", "M190")), lim("bed-temperature", val)))
                cs.append(IMP(AND(pres, cmd_is(s, "M141", "M191")), lim("chamber-temperature", val)))
            if L == "R":
                cs.append(IMP(AND(pres, cmd_is(s, "M109")), lim("hotend-temperature", val)))
                cs.append(IMP(AND(pres, cmd_is(s, "M190")), lim("bed-temperature", val)))
                cs.append(IMP(AND(pres, cmd_is(s, "M191")), lim("chamber-temperature", val)))
            if L == "T": cs.append(IMP(AND(pres, cmd_is(s, "M06")), lim("tool-number", val)))
            if L in AXES and self.transform == "identity":
                p, lo, hi = bounds_entry(h0, info["bounds"], "axes")
                i = AXES.index(L)
                l, h = lo.items()[i].inner, hi.items()[i].inner
                cur = M.c[L]
                tgt_rel = n_add(cur.inner, val)
                inside_abs = in_range(val, l, h)
                inside_rel = OR(cur.none, in_range(tgt_rel, l, h))
                cs.append(IMP(AND(pres, p, OR(motion, cmd_is(s, "G92"))),
                              ITE(AND(M.rel, NOT(cmd_is(s, "G92"))), inside_rel, inside_abs)))
        return AND(*cs)

    # ------------------------------------------------------------------ helpers for method-specific clauses
    def emits_exactly(self, e, codes, props, name="", known=None):
        """on exit e exactly len(codes) blocks are emitted and block i has command word codes[i] (None: no command word)"""
        blocks = emitted(e.log)
        ok = z3.BoolVal(len(blocks) == len(codes))
        if len(blocks) == len(codes):
            cs = []
            for (g, s), c in zip(blocks, codes):
                cs.append(g)
                if c is None: cs.append(z3.BoolVal(len(s.cmds) == 0))
                elif isinstance(c, (tuple, list)): cs.append(cmd_is(s, *c))
                elif isinstance(c, str): cs.append(cmd_is(s, c))
                else: cs.append(AND(z3.BoolVal(len(s.cmds) == 1), s.cmds[0].z() == c))
            ok = AND(*cs)
        self.ctx.check(f"emits exactly {name or codes} @{e.where}", ok, e, props, "post", known)

    def s1(self, f): return lambda e: fld(e.heap, self.sref, f)


# ---------------------------------------------------------------------------------------------- argument shapes
def no_args(ctx, st): return [], None, T, []


def enum_arg(cls):
    def mk(ctx, st):
        e, wf = sym_enum(cls, ctx.w, arg=True); return [e], None, wf, []
    return mk


def enum_num(cls, isint=False):
    def mk(ctx, st):
        e, wf = sym_enum(cls, ctx.w, arg=True)
        v, wfv = sym_num("v", isint=True if isint else None, finite=isint)
        return [e, v], None, AND(wf, wfv, z3.IsInt(v.val) if isint else T), [v.val]
    return mk


def one_num(ctx, st):
    v, wf = sym_num("v"); return [v], None, wf, [v.val]


def motion_args(ctx, st):
    pt, wfp = sym_point("pt")
    p = VOpt(fresh("pt_none", z3.BoolSort()), pt)
    kw, wfk, reals = mk_kwargs(st)
    return [p], kw, AND(wfp, wfk), reals + [c.inner.val for c in pt.items()]


def valid(ctx, e, cls):
    return AND(e.idx >= 0, e.idx < len(ctx.w.enum_members(cls)))


# ---------------------------------------------------------------------------------------------- tool / coolant / halt
def _tool_on(ctx, method, cls):
    b = B(ctx, method, enum_num(cls))
    mode, level = b.args
    off = mode.idx == member(ctx, cls, "OFF")
    active0 = fld(b.h0, b.sref, "_is_tool_active").t
    power_ok = AND(bound_ok(b.h0, b.info, "tool-power", level), NOT(n_lt(level, ZERO)), level.finite)
    bad_arg = OR(off, NOT(valid(ctx, mode, cls)))
    raises_iff(ctx, b.exits, {
        "ValueError": OR(bad_arg, AND(NOT(active0), NOT(power_ok))),   # argument validation only
        "ToolStateError": AND(NOT(bad_arg), active0),                                         # C02: only when a tool is already running
    }, props=["C02", "C03"])
    b.generic()
    for e in b.exits:
        if e.kind == "return":
            b.emits_exactly(e, [("M03", "M04")], ["C02", "C07"], "one M03/M04 block")
            ctx.canary("canary:level>0", n_lt(ZERO, level), e)


@unit("GCodeBuilder.tool_on", GEN + ["C06"])
def u_tool_on(ctx): _tool_on(ctx, "tool_on", "SpinMode")


@unit("GCodeBuilder.power_on", GEN + ["C06"])
def u_power_on(ctx): _tool_on(ctx, "power_on", "PowerMode")


def _off(ctx, method, code, flag):
    b = B(ctx, method, no_args)
    never_raises(ctx, b.exits, props=["C06", "C02"])
    b.generic()
    for e in b.exits:
        if e.kind == "return":
            b.emits_exactly(e, [code], ["C06", "C02"])
            ctx.check(f"C06 reports inactive @{e.where}", NOT(fld(e.heap, b.sref, flag).t), e, ["C06"], "post")
            ctx.canary("canary:was-active", fld(b.h0, b.sref, flag).t, e)


@unit("GCodeBuilder.tool_off", GEN + ["C06"])
def u_tool_off(ctx): _off(ctx, "tool_off", "M05", "_is_tool_active")


@unit("GCodeBuilder.power_off", GEN + ["C06"])
def u_power_off(ctx): _off(ctx, "power_off", "M05", "_is_tool_active")


@unit("GCodeBuilder.coolant_off", GEN + ["C06"])
def u_coolant_off(ctx): _off(ctx, "coolant_off", "M09", "_is_coolant_active")


@unit("GCodeBuilder.coolant_on", GEN)
def u_coolant_on(ctx):
    b = B(ctx, "coolant_on", enum_arg("CoolantMode"))
    (mode,) = b.args
    bad_arg = OR(mode.idx == member(ctx, "CoolantMode", "OFF"), NOT(valid(ctx, mode, "CoolantMode")))
    raises_iff(ctx, b.exits, {"ValueError": bad_arg,
                              "CoolantStateError": AND(NOT(bad_arg), fld(b.h0, b.sref, "_is_coolant_active").t)}, props=["C02"])
    b.generic()
    for e in b.exits:
        if e.kind == "return": b.emits_exactly(e, [("M07", "M08")], ["C02", "C07"])


@unit("GCodeBuilder.emergency_halt", GEN + ["C06"])
def u_emergency(ctx):
    def mk(ctx, st):
        return [VStr(None, fresh("msg", z3.StringSort())), VBool(fresh("reset", z3.BoolSort()))], None, T, []
    b = B(ctx, "emergency_halt", mk)
    msg, reset = b.args
    never_raises(ctx, b.exits, props=["C06", "C02"])
    b.generic()
    for e in b.exits:
        if e.kind == "return":
            blocks = emitted(e.log)
            b.emits_exactly(e, ["M05", "M09", None, ("M00", "M30")], ["C06"], "M05, M09, comment, M00|M30")
            if len(blocks) == 4:
                ctx.check("C06 final block is M30 iff reset", cmd_is(blocks[3][1], "M30") == reset.t, e, ["C06"], "post")
                ctx.check("C06 third block is the message comment", AND(blocks[2][1].has_comment, z3.BoolVal(len(blocks[2][1].params.present) == 0)), e, ["C06", "C09"], "post")
            ctx.check("C06 reports tool and coolant inactive", AND(NOT(fld(e.heap, b.sref, "_is_tool_active").t), NOT(fld(e.heap, b.sref, "_is_coolant_active").t)), e, ["C06"], "post")


# ---------------------------------------------------------------------------------------------- halt family / tool change
HALT_TEMP = {"WAIT_FOR_BED": "bed-temperature", "WAIT_FOR_HOTEND": "hotend-temperature", "WAIT_FOR_CHAMBER": "chamber-temperature"}


def halt_args(ctx, st):
    e, wf = sym_enum("HaltMode", ctx.w, arg=True)
    kw, wfk, reals = mk_kwargs(st, keys=("S", "R", "s", "r", "P", "K"), comment=False, prefix="hk")
    d = st.heap[kw.oid]["$d"]
    # A-keys: keyword names are distinct after upper-casing (python itself allows both s= and S=; the builder cannot tell which wins)
    distinct = AND(NOT(AND(d.present["S"], d.present["s"])), NOT(AND(d.present["R"], d.present["r"])))
    return [e], kw, AND(wf, wfk, distinct), reals


@unit("GCodeBuilder.halt", GEN)
def u_halt_b(ctx):
    b = B(ctx, "halt", halt_args)
    (mode,) = b.args
    kd = b.h0[b.kwargs.oid]["$d"]
    off = mode.idx == member(ctx, "HaltMode", "OFF")
    bad_arg = OR(off, NOT(valid(ctx, mode, "HaltMode")))
    tool0, cool0 = fld(b.h0, b.sref, "_is_tool_active").t, fld(b.h0, b.sref, "_is_coolant_active").t
    # the temperature the call asks for: S if given, else R (first of the two that is present), when not None
    pS, vS = OR(kd.present["S"], kd.present["s"]), merge(simp(kd.present["S"]), kd.vals["S"], kd.vals["s"])
    pR, vR = OR(kd.present["R"], kd.present["r"]), merge(simp(kd.present["R"]), kd.vals["R"], kd.vals["r"])
    temp = merge(simp(pS), vS, merge(simp(pR), vR, VOpt(T, vS.inner)))
    bad_temp = F
    for name, key in HALT_TEMP.items():
        bad_temp = OR(bad_temp, AND(mode.idx == member(ctx, "HaltMode", name), NOT(temp.none), NOT(bound_ok(b.h0, b.info, key, temp.inner))))
    nonfinite = OR(*[AND(kd.present[k], NOT(kd.vals[k].none), NOT(kd.vals[k].inner.finite)) for k in kd.present])
    interlock = AND(NOT(bad_arg), OR(tool0, cool0))
    raises_iff(ctx, b.exits, {
        "ValueError": OR(bad_arg, AND(NOT(interlock), OR(bad_temp, nonfinite))),
        "ToolStateError": AND(NOT(bad_arg), tool0),
        "CoolantStateError": AND(NOT(bad_arg), NOT(tool0), cool0),
    }, props=["C02", "C03"])
    both = AND(pS, NOT(vS.none), pR, NOT(vR.none))
    b.generic(known={"C03": ("KF-C03-halt-second-temperature-word", both)})
    for e in b.exits:
        if e.kind == "return":
            b.emits_exactly(e, [modal.GUARDED_HALT[1:]], ["C02", "C07"], "one halt/wait block")
            ctx.check("C02 a halt is emitted only with tool and coolant off", AND(NOT(tool0), NOT(cool0)), e, ["C02"], "post")


def _halt_wrapper(method, mk, codes):
    @unit(f"GCodeBuilder.{method}", GEN)
    def u(ctx):
        b = B(ctx, method, mk)
        tool0, cool0 = fld(b.h0, b.sref, "_is_tool_active").t, fld(b.h0, b.sref, "_is_coolant_active").t
        raises_iff(ctx, b.exits, {"ToolStateError": tool0, "CoolantStateError": AND(NOT(tool0), cool0)}, props=["C02"])
        b.generic()
        for e in b.exits:
            if e.kind == "return": b.emits_exactly(e, [codes], ["C02", "C07"])
    return u


def one_bool(ctx, st): return [VBool(fresh("flag", z3.BoolSort()))], None, T, []


_halt_wrapper("wait", no_args, ("M400",))
_halt_wrapper("pause", one_bool, ("M00", "M01"))
_halt_wrapper("stop", one_bool, ("M02", "M30"))


@unit("GCodeBuilder.tool_change", GEN)
def u_tool_change(ctx):
    b = B(ctx, "tool_change", enum_num("ToolSwapMode", isint=True))
    mode, n = b.args
    bad_arg = OR(mode.idx == member(ctx, "ToolSwapMode", "OFF"), NOT(valid(ctx, mode, "ToolSwapMode")))
    tool0, cool0 = fld(b.h0, b.sref, "_is_tool_active").t, fld(b.h0, b.sref, "_is_coolant_active").t
    bad_number = OR(NOT(bound_ok(b.h0, b.info, "tool-number", n)), n.val < 1)
    raises_iff(ctx, b.exits, {
        "ValueError": OR(bad_arg, bad_number),
        "ToolStateError": AND(NOT(bad_arg), NOT(bad_number), tool0),
        "CoolantStateError": AND(NOT(bad_arg), NOT(bad_number), NOT(tool0), cool0),
    }, props=["C02", "C03"])
    b.generic()
    for e in b.exits:
        if e.kind == "return":
            b.emits_exactly(e, ["M06"], ["C02", "C07"])
            blk = emitted(e.log)[0][1]
            p, v = ghost._axis_word(blk, "T") if False else (blk.params.present.get("T", F), blk.params.vals.get("T"))
            ctx.check("T word carries the requested tool number", AND(p, v_same(v, n)) if v is not None else F, e, ["C07", "C03"], "post")


# ---------------------------------------------------------------------------------------------- plain setters
def _enum_setter(method, cls, field, codes, props=GEN):
    @unit(f"GCodeBuilder.{method}", props)
    def u(ctx):
        b = B(ctx, method, enum_arg(cls))
        (m,) = b.args
        raises_iff(ctx, b.exits, {"ValueError": NOT(valid(ctx, m, cls))}, props=["C02", "C05"])
        b.generic()
        for e in b.exits:
            if e.kind == "return":
                if codes: b.emits_exactly(e, [codes], ["C07"])
                else: b.emits_exactly(e, [], ["C07"], "nothing")
                if field: ctx.check(f"{field} recorded", fld(e.heap, b.sref, field).idx == m.idx, e, ["C07"], "post")
    return u


_enum_setter("set_plane", "Plane", "_current_plane", ("G17", "G18", "G19"))
_enum_setter("set_distance_mode", "DistanceMode", "_current_distance_mode", ("G90", "G91"))
_enum_setter("set_extrusion_mode", "ExtrusionMode", "_current_extrusion_mode", ("M82", "M83"))
_enum_setter("set_feed_mode", "FeedMode", "_current_feed_mode", ("G93", "G94", "G95"))
_enum_setter("set_time_units", "TimeUnits", "_current_time_units", None)
_enum_setter("set_temperature_units", "TemperatureUnits", "_current_temperature_units", None)
_enum_setter("set_direction", "Direction", "_current_direction", None)
_enum_setter("query", "QueryMode", None, ("M105", "M114"))


def _num_cmd(method, key, field, code, nonneg):
    @unit(f"GCodeBuilder.{method}", GEN)
    def u(ctx):
        b = B(ctx, method, one_num)
        (v,) = b.args
        ok = AND(bound_ok(b.h0, b.info, key, v), v.finite)
        if nonneg: ok = AND(ok, NOT(n_lt(v, ZERO)))
        raises_iff(ctx, b.exits, {"ValueError": NOT(ok)}, props=["C03", "C02"])
        b.generic()
        for e in b.exits:
            if e.kind == "return":
                b.emits_exactly(e, [code], ["C07", "C03"])
                ctx.check(f"{field} recorded", v_same(fld(e.heap, b.sref, field), v), e, ["C07"], "post")
    return u


_num_cmd("set_feed_rate", "feed-rate", "_current_feed_rate", None, True)
_num_cmd("set_tool_power", "tool-power", "_current_tool_power", None, True)
_num_cmd("set_bed_temperature", "bed-temperature", "_target_bed_temperature", "M140", False)
_num_cmd("set_hotend_temperature", "hotend-temperature", "_target_hotend_temperature", "M104", False)
_num_cmd("set_chamber_temperature", "chamber-temperature", "_target_chamber_temperature", "M141", False)


# ---------------------------------------------------------------------------------------------- motion
def requested_point(b):
    """the Point the call asks for: the positional point if given, else Point(x, y, z) from the keyword arguments"""
    p = b.args[-1] if isinstance(b.args[-1], VOpt) else b.args[0]
    kd = b.h0[b.kwargs.oid]["$d"]
    out = []
    for i, a in enumerate("xyz"):
        from_kw = merge(simp(kd.present[a]), kd.vals[a], VOpt(T, kd.vals[a].inner))
        out.append(merge(simp(p.none), from_kw, p.inner.items()[i]))
    return VPoint(*out)


def motion_unit(ctx, method, code, absolute_bypass=False, extra_args=None):
    mk = motion_args if extra_args is None else extra_args
    b = B(ctx, method, mk)
    req = requested_point(b)
    o0 = b.h0[b.g.oid]
    cur = o0["_current_axes"]
    rel = o0["_distance_mode"].idx == b.rel_idx
    kd = b.h0[b.kwargs.oid]["$d"]
    # absolute target in builder coordinates, as the statement of C01/C03 defines it
    tgt = []
    for c, r in zip(cur.items(), req.items()):
        c0 = merge(simp(c.none), num(0), c.inner)          # unknown current coordinate counts as 0
        r0 = merge(simp(r.none), num(0), r.inner)
        if absolute_bypass: tgt.append(merge(simp(r.none), c, VOpt(F, r.inner)))
        else: tgt.append(merge(simp(rel), VOpt(F, n_add(c0, r0)), merge(simp(r.none), VOpt(F, c0), VOpt(F, r.inner))))
    target = VPoint(*tgt)
    pres, lo, hi = bounds_entry(b.h0, b.info["bounds"], "axes")
    F_given = AND(kd.present["F"], NOT(kd.vals["F"].none)); S_given = AND(kd.present["S"], NOT(kd.vals["S"].none))
    Fv, Sv = kd.vals["F"].inner, kd.vals["S"].inner
    bad_F = AND(F_given, NOT(AND(bound_ok(b.h0, b.info, "feed-rate", Fv), NOT(n_lt(Fv, ZERO)), Fv.finite)))
    bad_S = AND(S_given, NOT(AND(bound_ok(b.h0, b.info, "tool-power", Sv), NOT(n_lt(Sv, ZERO)), Sv.finite)))
    bad_target = AND(pres, NOT(point_in_box(target, lo, hi)))
    nonfinite = OR(*[AND(kd.present[k], NOT(kd.vals[k].none), NOT(kd.vals[k].inner.finite)) for k in kd.present if k not in ("comment", "x", "y", "z")],
                   *[AND(NOT(c.none), NOT(c.inner.finite)) for c in req.items()],
                   *[AND(NOT(c.none), NOT(c.inner.finite)) for c in cur.items()])
    b.bad = dict(F=bad_F, S=bad_S, target=bad_target, nonfinite=nonfinite)
    b.target, b.req = target, req
    return b


def _linear(method, code, bypass):
    @unit(f"GCodeBuilder.{method}", GEN + ["C11"])
    def u(ctx):
        b = motion_unit(ctx, method, code, bypass)
        bad = b.bad
        # C03/C05: a call is rejected (ValueError) exactly when a bound, a negative or a non-finite value is involved
        raises_iff(ctx, b.exits, {"ValueError": OR(bad["F"], bad["S"], bad["target"], bad["nonfinite"])}, props=["C03", "C02"])
        known = None
        if bypass:
            rel = b.h0[b.g.oid]["_distance_mode"].idx == b.rel_idx
            kd = b.h0[b.kwargs.oid]["$d"]
            fs = OR(AND(kd.present["F"], NOT(kd.vals["F"].none)), AND(kd.present["S"], NOT(kd.vals["S"].none)))
            kl = [("KF-C05-absolute-bypass-relative", rel), ("KF-C05-absolute-bypass-FS-then-axes", AND(NOT(rel), bad["target"], fs))]
            known = {"C05": kl, "C07": lambda e: kl if e.kind == "raise" else None}
        b.generic(known=known)
        for e in b.exits:
            if e.kind == "return":
                ctx.check(f"position' == requested absolute target @{e.where}", v_same(e.heap[b.g.oid]["_current_axes"], b.target), e, ["C01", "C11"], "post")
                ctx.check(f"state.position' == builder.position' @{e.where}", v_same(e.heap[b.sref.oid]["_current_axes"], e.heap[b.g.oid]["_current_axes"]), e, ["C01", "C07"], "post")
                ctx.check(f"distance mode restored @{e.where}", e.heap[b.g.oid]["_distance_mode"].idx == b.h0[b.g.oid]["_distance_mode"].idx, e, ["C01", "C11"], "post")
                ctx.canary("canary:x-requested", NOT(b.req.x.none), e)
    return u


_linear("move", "G1", False)
_linear("rapid", "G0", False)
_linear("move_absolute", "G1", True)
_linear("rapid_absolute", "G0", True)


@unit("GCodeBuilder.set_axis", GEN)
def u_set_axis(ctx):
    b = motion_unit(ctx, "set_axis", "G92", True)
    bad = b.bad
    raises_iff(ctx, b.exits, {"ValueError": OR(bad["target"], bad["nonfinite"])}, props=["C03", "C02"])
    b.generic()
    for e in b.exits:
        if e.kind == "return":
            b.emits_exactly(e, ["G92"], ["C01", "C07"])
            ctx.check("position' == position.replace(requested)", v_same(e.heap[b.g.oid]["_current_axes"], b.target), e, ["C01"], "post")
            ctx.check("state.position' == builder.position'", v_same(e.heap[b.sref.oid]["_current_axes"], e.heap[b.g.oid]["_current_axes"]), e, ["C01", "C07"], "post")


@unit("GCodeBuilder.auto_home", GEN)
def u_auto_home(ctx):
    b = motion_unit(ctx, "auto_home", "G28", True)
    bad = b.bad
    req = b.req
    none_req = AND(*[c.none for c in req.items()])
    cur = b.h0[b.g.oid]["_current_axes"]
    # (helper precondition read off the code) homing is also refused when an axis that is NOT homed currently sits outside the box
    pres, lo, hi = bounds_entry(b.h0, b.info["bounds"], "axes")
    rest = VPoint(*[merge(simp(OR(none_req, NOT(r.none))), VOpt(T, c.inner), c) for c, r in zip(cur.items(), req.items())])
    raises_iff(ctx, b.exits, {"ValueError": OR(bad["nonfinite"], AND(pres, NOT(point_in_box(rest, lo, hi))))}, props=["C03", "C02"])
    b.generic()
    for e in b.exits:
        if e.kind == "return":
            b.emits_exactly(e, ["G28"], ["C01", "C07"])
            new = e.heap[b.g.oid]["_current_axes"]
            # homed axes (all of them when none is named) become unknown to the builder; the others keep their value
            cs = [ITE(OR(none_req, NOT(r.none)), n.none, v_same(n, c)) for n, c, r in zip(new.items(), cur.items(), req.items())]
            ctx.check("homed axes become unknown, others unchanged", AND(*cs), e, ["C01"], "post")


def probe_args(ctx, st):
    e, wf = sym_enum("ProbingMode", ctx.w, arg=True)
    a, kw, wfa, reals = motion_args(ctx, st)
    return [e] + a, kw, AND(wf, wfa), reals


@unit("GCodeBuilder.probe", GEN)
def u_probe(ctx):
    b = motion_unit(ctx, "probe", "G38", False, extra_args=probe_args)
    bad = b.bad
    mode = b.args[0]
    raises_iff(ctx, b.exits, {"ValueError": OR(NOT(valid(ctx, mode, "ProbingMode")), bad["F"], bad["S"], bad["target"], bad["nonfinite"])}, props=["C03", "C02"])
    b.generic()
    for e in b.exits:
        if e.kind == "return":
            b.emits_exactly(e, [PROBE], ["C01", "C07"])
            pres, lo, hi = bounds_entry(b.h0, b.info["bounds"], "axes")
            ctx.check("C03 probe target inside the axes box", IMP(pres, point_in_box(b.target, lo, hi)), e, ["C03"], "post")
            new = e.heap[b.g.oid]["_current_axes"]
            blk = emitted(e.log)[0][1]
            cs = []
            for A, n, t in zip(AXES, new.items(), b.target.items()):
                p, v = ghost._axis_word(blk, A)
                cs.append(ITE(p, n.none, v_same(n, t)))      # probed axes become unknown, the others are at the computed target
            ctx.check("probed axes become unknown, others at target", AND(*cs), e, ["C01"], "post")


# ---------------------------------------------------------------------------------------------- mode context managers (halves)
def _cm_unit(method, want):
    @unit(f"GCodeCore.{method}[with-body-skip]", ["C01", "C05", "C07", "C11"])
    def u(ctx):
        """with g.<method>(): pass   — enter and exit halves around an empty body, from either distance mode"""
        b = B(ctx, "__verif_with__" + method, no_args) if False else None
    return u


@unit("GCodeBuilder.set_length_units", GEN + ["C12"])
def u_units(ctx):
    b = B(ctx, "set_length_units", enum_arg("LengthUnits"))
    (m,) = b.args
    raises_iff(ctx, b.exits, {"ValueError": NOT(valid(ctx, m, "LengthUnits"))}, props=["C02", "C05", "C12"])
    b.generic()
    for e in b.exits:
        if e.kind == "return":
            b.emits_exactly(e, [("G20", "G21")], ["C07", "C12"])
            ctx.check("units recorded", fld(e.heap, b.sref, "_current_length_units").idx == m.idx, e, ["C07", "C12"], "post")
            # C12: the resolution denotes the same physical length before and after (pixels = value / scale_factor of the unit it is expressed in)
            from specs.common import h_scale_factor
            s_old = h_scale_factor(b.x, fld(b.h0, b.sref, "_current_length_units"), [], {}, None).val
            s_new = h_scale_factor(b.x, fld(e.heap, b.sref, "_current_length_units"), [], {}, None).val
            r0, r1 = fld(b.h0, b.sref, "_current_resolution").val, fld(e.heap, b.sref, "_current_resolution").val
            ctx.check("C12 a units switch rescales the resolution: same length in pixels before and after", r1 * s_old == r0 * s_new, e, ["C12"], "post")


@unit("GCodeBuilder.set_resolution", ["C05", "C12", "C07", "C01", "C02", "C03"])
def u_set_res(ctx):
    b = B(ctx, "set_resolution", one_num)
    (v,) = b.args
    raises_iff(ctx, b.exits, {"ValueError": n_le(v, ZERO)}, props=["C12", "C02"])
    b.generic()
    for e in b.exits:
        if e.kind == "return":
            b.emits_exactly(e, [], ["C12", "C07"], "nothing")
            ctx.check("resolution recorded", v_same(fld(e.heap, b.sref, "_current_resolution"), v), e, ["C12"], "post")


@unit("GCodeBuilder.set_fan_speed", GEN)
def u_fan(ctx):
    def mk(ctx, st):
        v, wf = sym_num("speed"); n, wfn = sym_num("fan", isint=True, finite=True)
        return [v, n], None, AND(wf, wfn, z3.IsInt(n.val)), [v.val, n.val]
    b = B(ctx, "set_fan_speed", mk)
    v, n = b.args
    raises_iff(ctx, b.exits, {"ValueError": OR(n.val < 0, n_lt(v, ZERO), n_lt(num(255), v), NOT(v.finite))}, props=["C03", "C02"])
    b.generic()
    for e in b.exits:
        if e.kind == "return": b.emits_exactly(e, ["M106"], ["C07"])


@unit("GCodeBuilder.sleep", GEN)
def u_sleep(ctx):
    b = B(ctx, "sleep", one_num)
    (v,) = b.args
    raises_iff(ctx, b.exits, {"ValueError": OR(n_lt(v, ZERO), NOT(v.finite))}, props=["C03", "C02"])
    b.generic()
    for e in b.exits:
        if e.kind == "return": b.emits_exactly(e, ["G04"], ["C07"])


# ---------------------------------------------------------------------------------------------- moves with registered hooks (C03, C20)
def _hooked(method, bypass):
    @unit(f"GCodeBuilder.{method}[hooks]", GEN + ["C20"])
    def u(ctx):
        nh = fresh("n_hooks", z3.IntSort())
        ctx.assume(nh >= 1)
        # build the run by hand: B with a symbolic number of hooks
        b = B.__new__(B)
        b.__dict__["_hooks_n"] = nh
        _init_B_with_hooks(b, ctx, method, bypass, nh)
    return u


def _init_B_with_hooks(b, ctx, method, bypass, nh):
    holder = {}
    def mk(ctx_, st):
        return motion_args(ctx_, st)
    B.__init__(b, ctx, method, mk, hooks=nh)
    out_ref = b.x.ghost.get("hook_out")
    if out_ref is None: raise Unsupported("hook loop contract was not reached")
    def prepare(real, model):
        from gscrib.params import ParamsDict
        k = int(str(model.eval(nh, model_completion=True)))
        k = max(1, min(k, 3))                       # any number >= 1 of hooks behaves alike: earlier ones pass params through
        final = harness.conc(ctx.w, model, out_ref, b.h0 if out_ref.oid in b.h0 else b.exits[-1].heap)
        calls = []
        def passthrough(origin, target, params, state): calls.append((origin, target)); return params
        def last(origin, target, params, state):
            calls.append((origin, target)); p = ParamsDict()
            for kk, vv in final.items(): dict.__setitem__(p, kk, vv)
            return p
        for _ in range(k - 1): real.add_hook(lambda o, t, p, s, f=passthrough: f(o, t, p, s))
        real.add_hook(last)
        real._verif_calls = calls
    ctx.replayer = harness.builder_method_replayer(ctx, ctx.w, method, b.g, b.info, b.h0, b.args, b.kwargs, b.exits, prepare=prepare)
    od = b.exits[-1].heap[out_ref.oid]["$d"] if out_ref.oid in b.exits[-1].heap else None
    req = requested_point(b)
    o0 = b.h0[b.g.oid]; cur = o0["_current_axes"]; rel = o0["_distance_mode"].idx == b.rel_idx
    tgt = []
    for c, r in zip(cur.items(), req.items()):
        c0 = merge(simp(c.none), num(0), c.inner); r0 = merge(simp(r.none), num(0), r.inner)
        if bypass: tgt.append(VOpt(F, merge(simp(r.none), c0, r.inner)))
        else: tgt.append(merge(simp(rel), VOpt(F, n_add(c0, r0)), merge(simp(r.none), VOpt(F, c0), VOpt(F, r.inner))))
    target = VPoint(*tgt)
    origin = VPoint(*[VOpt(F, merge(simp(c.none), num(0), c.inner)) for c in cur.items()])
    known = None
    if bypass:
        kl = [("KF-C05-absolute-bypass-relative", rel), ("KF-C05-absolute-bypass-FS-then-axes", NOT(rel))]
        known = {"C05": kl, "C07": lambda e: kl if e.kind == "raise" else None}
    b.generic(known=known)
    for e in b.exits:
        calls = [(g, ev[1]) for g, ev in e.log if ev[0] == "hook"]
        if e.kind == "return":
            ctx.check(f"C20 the hook body ran (once per registered hook by the for-statement) @{e.where}", AND(z3.BoolVal(len(calls) == 1), *[g for g, _ in calls]), e, ["C20"], "post")
        req_finite = AND(*[OR(c.none, c.inner.finite) for c in req.items()])     # a request with NaN/inf coordinates is rejected, it is not a move
        for i, (g, a) in enumerate(calls):
            ctx.check(f"C20 hook sees the true absolute origin [{e.kind}@{e.where}]", IMP(g, v_same(a[0], origin)), e, ["C20"], "post")
            ctx.check(f"C20 hook sees the true absolute target [{e.kind}@{e.where}]", IMP(AND(g, req_finite), v_same(a[1], target)), e, ["C20"], "post")
            ctx.check(f"C20 hook receives the state object [{e.kind}@{e.where}]", z3.BoolVal(isinstance(a[3], VRef) and a[3].oid == b.sref.oid), e, ["C20"], "post")
        if e.kind == "return":
            blocks = emitted(e.log)
            blk = [s for g, s in blocks if len(s.cmds) == 1 and s.cmds[0].py in ("G1", "G0")]
            outd = e.heap[out_ref.oid]["$d"]
            cs = []
            pd = e.heap[b.pref.oid]["$d"]
            for k in outd.present:
                if k in AXES: continue
                # returned == emitted == remembered, key by key
                for s in blk:
                    wp = s.params.present.get(k, F); wv = s.params.vals.get(k)
                    cs.append(wp == outd.present[k])
                    if wv is not None: cs.append(IMP(outd.present[k], v_same(as_opt(wv), as_opt(outd.vals[k]))))
                cs.append(IMP(outd.present[k], AND(pd.present.get(k, F), v_same(as_opt(pd.vals[k]), as_opt(outd.vals[k])))))
            ctx.check(f"C20 parameters returned by the last hook == emitted == remembered @{e.where}", AND(z3.BoolVal(len(blk) == 1), *cs), e, ["C20"], "post")


_hooked("move", False)
_hooked("move_absolute", True)


# ---------------------------------------------------------------------------------------------- C04: moves under an arbitrary affine transform
def _affine(method, code, extra=None):
    @unit(f"GCodeBuilder.{method}[affine]", ["C04"])
    def u(ctx):
        b = B(ctx, method, extra or motion_args, transform="affine")
        tr = b.h0[b.info["transformer"].oid]
        A3, b3 = tr["$A"], tr["$b"]
        b.generic(skip=("C01", "C02", "C03", "C05", "C07"))
        o0 = b.h0[b.g.oid]; cur = o0["_current_axes"]; rel = o0["_distance_mode"].idx == b.rel_idx
        req = requested_point(b)
        c0 = [ITE(c.none, z3.RealVal(0), c.inner.val) for c in cur.items()]
        r0 = [ITE(r.none, z3.RealVal(0), r.inner.val) for r in req.items()]
        tgt = [ITE(rel, c0[i] + r0[i], ITE(req.items()[i].none, c0[i], r0[i])) for i in range(3)]
        img = lambda p, i: b3[i].val + sum(A3[i][j].val * p[j] for j in range(3))
        lin = lambda d, i: sum(A3[i][j].val * d[j] for j in range(3))
        for e in b.exits:
            if e.kind != "return": continue
            blocks = [s for g, s in emitted(e.log) if len(s.cmds) == 1]
            blk = blocks[-1] if blocks else None
            if blk is None: continue
            cs_word, cs_complete = [], []
            for i, Ax in enumerate(AXES):
                p, v = ghost._axis_word(blk, Ax)
                want = ITE(rel, lin([tgt[j] - c0[j] for j in range(3)], i), img(tgt, i))
                cs_word.append(IMP(p, AND(v.finite, v.val == want)))                               # per word: image of the target / linear image of the displacement
                cs_complete.append(IMP(NOT(p), img(tgt, i) == img(c0, i)))                        # completeness: an axis that is not mentioned does not have to change
            ctx.check(f"C04 every emitted axis word is the transformed target (abs) / linear image of the displacement (rel) @{e.where}", AND(*cs_word), e, ["C04"], "post")
            ctx.check(f"C04 every axis whose machine coordinate changes is mentioned @{e.where}", AND(*cs_complete), e, ["C04"], "post")
    return u


_affine("move", "G1"); _affine("rapid", "G0"); _affine("probe", "G38", probe_args)


@unit("GCodeBuilder.rapid[hooks]", ["C20"])
def u_rapid_hooks(ctx):
    nh = fresh("n_hooks", z3.IntSort()); ctx.assume(nh >= 1)
    b = B(ctx, "rapid", motion_args, hooks=nh)
    for e in b.exits:
        ctx.check(f"C20 a rapid move calls no hook [{e.kind}@{e.where}]", z3.BoolVal(not any(ev[0] == "hook" for g, ev in e.log)), e, ["C20"], "post")


# ---------------------------------------------------------------------------------------------- Init: the freshly constructed builder
def _fresh(method, mk, tag=""):
    @unit(f"GCodeBuilder.{method}[fresh builder: unshared empty params]", ["C01", "C05", "C07", "C20"])
    def u(ctx):
        """the generic clauses again from the one reachable state shape the other units do not cover: core and state hold two distinct empty dicts"""
        b = B(ctx, method, mk, fresh_params=True)
        b.generic(skip=("C02", "C03") + (("C05", "C07") if method == "move_absolute" else ()))      # bypass moves: C05/C07 with their known-finding regions are in the main unit
        for e in b.exits:
            if e.kind == "return" and method in ("move", "rapid", "set_axis", "auto_home", "probe", "move_absolute"):
                ctx.check("the first tracked move makes core and state share one parameter dict", z3.BoolVal(e.heap[b.sref.oid]["_current_params"].oid == e.heap[b.g.oid]["_current_params"].oid), e, ["C07", "C20"], "inv")
    return u


_fresh("move", motion_args); _fresh("set_axis", motion_args); _fresh("auto_home", motion_args); _fresh("set_feed_rate", one_num)
_fresh("probe", probe_args); _fresh("move_absolute", motion_args)


@unit("Init: freshly constructed GCodeBuilder / GState satisfy the invariants (ground)", ["C01", "C02", "C05", "C07", "C03"])
def u_init(ctx):
    """(I) of DESIGN §3.5, evaluated concretely on the objects the real constructors return, for several configurations"""
    import io, math
    from gscrib import GCodeBuilder
    from gscrib.enums import SpinMode, PowerMode, CoolantMode, DistanceMode
    cfgs = [{}, {"decimal_places": 0, "comment_symbols": "(", "line_endings": "\\r\\n"}, {"x_axis": "A", "y_axis": "B", "z_axis": "C", "output": io.BytesIO()}]
    for i, cfg in enumerate(cfgs):
        g = GCodeBuilder(**cfg); s = g.state
        facts = {
            "tool flags consistent": (not s.is_tool_active) and s.spin_mode == SpinMode.OFF and s.power_mode == PowerMode.OFF and (not s.is_coolant_active) and s.coolant_mode == CoolantMode.OFF,
            "core and state distance modes agree (absolute)": g.distance_mode == s.distance_mode == DistanceMode.ABSOLUTE,
            "tracked positions are unknown or finite": all(c is None or math.isfinite(c) for c in tuple(g.position) + tuple(s.position)),
            "no parameter is remembered": len(g._current_params) == 0 and len(s._current_params) == 0,
            "no bounds are configured": len(s._user_bounds._bounds) == 0,
            "nothing has been emitted and no hook is registered": len(g._hooks) == 0,
            "feed rate / tool power are finite and non-negative": s.feed_rate == 0 and s.tool_power == 0,
        }
        for name, ok in facts.items():
            ctx.check(f"config#{i}: {name}", z3.BoolVal(bool(ok)), None, None, "init")


# ---------------------------------------------------------------------------------------------- remaining writers of the footprint (closure)
def _set_bounds_unit(key):
    @unit(f"GCodeBuilder.set_bounds[{key}]", ["C03", "C05", "C01", "C02", "C07", "C20"])
    def u(ctx):
        def mk(ctx_, st):
            if key == "axes":
                lo, w1 = sym_point("lo", finite=False); hi, w2 = sym_point("hi", finite=False)
                return [VStr(key), lo, hi], None, AND(w1, w2), [c.inner.val for c in lo.items()] + [c.inner.val for c in hi.items()]
            lo, w1 = sym_num("lo"); hi, w2 = sym_num("hi")
            return [VStr(key), lo, hi], None, AND(w1, w2), [lo.val, hi.val]
        b = B(ctx, "set_bounds", mk)
        name, lo, hi = b.args
        b.generic(skip=("C05",))
        valid_key = key in bound_keys(ctx.w)
        if key == "axes":
            rl = [merge(simp(c.none), num(0), c.inner) for c in lo.items()]; rh = [merge(simp(c.none), num(0), c.inner) for c in hi.items()]
            le = AND(*[n_le(a, c) for a, c in zip(rl, rh)]); lt = OR(*[n_lt(a, c) for a, c in zip(rl, rh)])
            less = AND(le, lt)                   # Point order: every coordinate <=, at least one <
        else:
            less = n_lt(lo, hi) if valid_key else F
        # set_bounds refuses min >= max; with a NaN bound `min >= max` is false, so the pair is accepted (and then rejects every value: C03 still holds)
        ge = NOT(less) if key == "axes" else n_le(hi, lo)
        raises_iff(ctx, b.exits, {"ValueError": z3.BoolVal(not valid_key) if not valid_key else ge}, props=["C03"])
        for e in b.exits:
            if e.kind == "raise":
                ctx.check(f"C05 a rejected set_bounds leaves the table as it was [{e.where}]", unchanged_obj(b.h0, e.heap, b.info["bounds"]), e, ["C05", "C03"], "frame")
                ctx.check(f"C05 ... and the state [{e.where}]", unchanged_obj(b.h0, e.heap, b.sref), e, ["C05"], "frame")
                continue
            d1 = e.heap[e.heap[b.info["bounds"].oid]["_bounds"].oid]["$d"]; d0 = b.h0[b.h0[b.info["bounds"].oid]["_bounds"].oid]["$d"]
            ctx.check("the entry is recorded, every other entry is untouched, nothing is emitted",
                      AND(d1.present[key], *[AND(d1.present[k] == d0.present[k], v_same(d1.vals[k], d0.vals[k])) for k in d0.present if k != key],
                          z3.BoolVal(len(emitted(e.log)) == 0)), e, ["C03"], "post")
            if key != "axes":
                ctx.check("recorded limits are the ones given", v_same(d1.vals[key], VTuple([lo, hi])), e, ["C03"], "post")
    return u


for _k in ("axes", "feed-rate", "tool-power", "tool-number", "bed-temperature", "not-a-property"): _set_bounds_unit(_k)


@unit("GCodeBuilder.add_hook / remove_hook", ["C20", "C05", "C01", "C02", "C03", "C07"])
def u_hooks_list(ctx):
    for method in ("add_hook", "remove_hook"):
        for present in (False, True):
            st = State(T, {}, {}, [])
            g, wf, info = mk_builder(st, ctx.w)
            x = ctx.executor()
            h1 = VFunc("hook1", lambda *a: NONE); h2 = VFunc("hook2", lambda *a: NONE)
            st.heap[st.heap[g.oid]["_hooks"].oid]["$l"] = VList([h1, h2] if present else [h2])
            ctx.assume(wf)
            orig_eq = x.eq
            def eq(a, b, st_, _o=orig_eq):
                if isinstance(a, VFunc) and isinstance(b, VFunc): return z3.BoolVal(a is b)
                return _o(a, b, st_)
            x.eq = eq
            h0 = st.snap()
            exits = ctx.run(x, f"GCodeBuilder.{method}", [g, h1], {}, st)
            never_raises(ctx, exits, tag=f"[{method},{present}]")
            for e in exits:
                items = e.heap[e.heap[g.oid]["_hooks"].oid]["$l"].items
                want = ([h1, h2] if present else [h2, h1]) if method == "add_hook" else [h2]
                ctx.check(f"{method} ({'already' if present else 'not yet'} registered): hooks are a duplicate-free list in registration order", z3.BoolVal([i for i in items] == want or all(a is b for a, b in zip(items, want)) and len(items) == len(want)), e, ["C20"], "post")
                ctx.check(f"{method}: nothing else changes, nothing is emitted", AND(unchanged_obj(h0, e.heap, info["state"]), z3.BoolVal(len(e.log) == 0),
                          v_same(h0[g.oid]["_current_axes"], e.heap[g.oid]["_current_axes"])), e, None, "frame")


@unit("GCodeCore.set_distance_mode[GCodeCore object]", ["C01", "C05", "C07", "C02", "C03", "C20"])
def u_core_sdm(ctx):
    """the base-class method (GCodeBuilder overrides it): for a plain GCodeCore the tracked mode and the emitted word agree"""
    st = State(T, {}, {}, [])
    g, wf, info = mk_builder(st, ctx.w, cls="GCodeCore")
    x = ctx.executor()
    m, wfm = sym_enum("DistanceMode", ctx.w, arg=True)
    ctx.assume(wf, wfm)
    h0 = st.snap()
    exits = ctx.run(x, "GCodeCore.set_distance_mode", [g, m], {}, st)
    covers(ctx, exits)
    raises_iff(ctx, exits, {"ValueError": NOT(valid(ctx, m, "DistanceMode"))}, props=["C01"])
    for e in exits:
        if e.kind != "return": continue
        blocks = emitted(e.log)
        rel = m.idx == ctx.w.enum_index("DistanceMode", "RELATIVE")
        ctx.check("the mode is recorded and exactly the matching word is emitted", AND(e.heap[g.oid]["_distance_mode"].idx == m.idx, z3.BoolVal(len(blocks) == 1),
                  *[AND(gd, ITE(rel, cmd_is(s, "G91"), cmd_is(s, "G90"))) for gd, s in blocks]), e, None, "post")
