"""Contracts on the public methods of GCodeBuilder / GCodeCore (gscrib/gcode_builder.py, gscrib/gcode_core.py).

Every method is executed once from an arbitrary well-formed builder state (all tracked fields symbolic) with the
callees inlined down to the assumed contracts of specs/common.py.  The same generic clauses are generated for
every method (C01 agreement, C02 safety, C03 bounds, C05 no-effect-on-reject, C07 mirror); method-specific clauses
(exact raises-iff, exact emission) follow."""
import z3
from pyvc.values import *
from pyvc.state import State
from pyvc.ctx import unit
from specs.common import *
from specs.dsl import *
from specs import harness, ghost, modal
from specs.ghost import Machine, cmd_is, LINEAR, PROBE, emitted
from specs.state_units import bound_ok, fld, member, ZERO

GEN = ["C01", "C02", "C03", "C05", "C07"]


class B:
    """one symbolic run of a builder method"""
    def __init__(self, ctx, method, mk_args, transform="identity", hooks=0, cls="GCodeBuilder"):
        self.ctx, self.method, self.w = ctx, method, ctx.w
        st = State(T, {}, {}, [])
        self.g, wf, self.info = mk_builder(st, ctx.w, transform, hooks, cls)
        self.sref, self.pref = self.info["state"], self.info["params"]
        args, kwargs, wfa, reals = mk_args(ctx, st)
        self.args, self.kwargs = args, kwargs
        ctx.assume(wf, wfa, wf_tool(ctx.w, st.heap, self.sref))
        ctx.input_reals = self.info["reals"] + reals
        # ghost machine agreeing with the builder before the call (C01 / C04 induction hypothesis)
        self.M0, wfM = Machine.fresh()
        ctx.assume(wfM)
        o = st.heap[self.g.oid]
        self.rel_idx = ctx.w.enum_index("DistanceMode", "RELATIVE")
        if transform == "identity":
            ctx.assume(ghost.agree(self.M0, o["_current_axes"], o["_distance_mode"].idx, self.rel_idx))
        else:
            tr = st.heap[self.info["transformer"].oid]
            ctx.assume(ghost.agree_T(self.M0, o["_current_axes"], tr["$A"], tr["$b"]),
                       self.M0.rel == (o["_distance_mode"].idx == self.rel_idx))
        self.transform = transform
        self.h0 = st.snap()
        self.ms0 = modal.modal_of_state(ctx.w, self.h0, self.sref, self.pref, PARAM_KEYS)
        x = ctx.executor()
        self.x = x
        kw = {"**": kwargs} if kwargs is not None else {}
        self.exits = ctx.run(x, f"{cls}.{method}", [self.g] + args, kw, st)
        ctx.replayer = harness.builder_method_replayer(ctx, ctx.w, method, self.g, self.info, self.h0, args, kwargs, self.exits)
        covers(ctx, self.exits)
        exits_partition(ctx, self.exits, props=GEN)

    # ------------------------------------------------------------------ generic clauses
    def generic(self, skip=(), known=None):
        ctx, w = self.ctx, self.w
        known = known or {}
        for e in self.exits:
            tag = f"{e.kind}{':' + e.payload if e.kind == 'raise' else ''}@{e.where}"
            blocks = emitted(e.log)
            o1 = e.heap[self.g.oid]
            # ---- C05: a rejected call leaves no trace
            if e.kind == "raise" and "C05" not in skip:
                kf = known.get("C05")
                k = kf(e) if callable(kf) else kf
                ctx.check(f"C05 builder fields unchanged [{tag}]",
                          unchanged_obj(self.h0, e.heap, self.g, fields=["_current_axes", "_distance_mode", "_direction", "_current_params", "_state", "_hooks", "_transformer"]),
                          e, ["C05"], "frame", k)
                ctx.check(f"C05 state object unchanged [{tag}]", unchanged_obj(self.h0, e.heap, self.sref), e, ["C05"], "frame", k)
                ctx.check(f"C05 bounds table unchanged [{tag}]", unchanged_obj(self.h0, e.heap, self.info["bounds"]), e, ["C05"], "frame", k)
                ctx.check(f"C05 nothing emitted [{tag}]", AND(*[NOT(g) for g, _ in blocks]), e, ["C05"], "frame", k)
            # ---- C01: the emitted program reproduces the tracked position and distance mode
            if "C01" not in skip and self.transform == "identity":
                M1 = ghost.run_machine(self.M0, e.log)
                kf = known.get("C01"); k = kf(e) if callable(kf) else kf
                ctx.check(f"C01 machine==builder position/mode [{tag}]", ghost.agree(M1, o1["_current_axes"], o1["_distance_mode"].idx, self.rel_idx), e, ["C01"], "inv", k)
            # ---- wf: core and state distance modes stay equal; tool flags stay consistent
            ctx.check(f"wf core/state distance mode [{tag}]", o1["_distance_mode"].idx == e.heap[self.sref.oid]["_current_distance_mode"].idx, e, ["C01", "C07", "C05"], "inv")
            ctx.check(f"wf tool flags consistent [{tag}]", wf_tool(w, e.heap, self.sref), e, ["C07", "C02"], "inv", known.get("wf_tool"))
            ctx.check(f"wf params shared [{tag}]", z3.BoolVal(e.heap[self.sref.oid]["_current_params"].oid == o1["_current_params"].oid), e, ["C07"], "inv")
            # ---- C02 safety and C03 bounds on every emitted block, in the modal / machine state it is emitted in
            ms, M = self.ms0, self.M0
            for i, (g, s) in enumerate(blocks):
                if "C02" not in skip:
                    ctx.check(f"C02 block#{i} safe [{tag}]", NOT(modal.unsafe(ms, g, s)), e, ["C02"], "post")
                if "C03" not in skip:
                    kf = known.get("C03"); k = kf(e) if callable(kf) else kf
                    ctx.check(f"C03 block#{i} inside limits [{tag}]", IMP(g, self.block_in_bounds(ms, M, s)), e, ["C03"], "post", k)
                ms = modal.modal_step(ms, g, s); M = ghost.mstep(M, g, s)
            # ---- C07 mirror
            if "C07" not in skip:
                for name, cl in modal.mirror_clauses(w, ms, e.heap, self.sref, self.pref).items():
                    kf = known.get("C07"); k = kf(e) if callable(kf) else kf
                    ctx.check(f"C07 mirror {name} [{tag}]", cl, e, ["C07"] + (["C02"] if name in ("tool-active", "coolant-active") else []), "inv", k)

    def block_in_bounds(self, ms, M, s):
        """C03 for one block: every F/S/T/temperature word is inside its range and, for motion blocks, every commanded
        axis target (absolute word, or machine coordinate + word in relative mode) is inside the axes box"""
        h0, info = self.h0, self.info
        def lim(key, v): return bound_ok(h0, info, key, v)
        cs = []
        bare = z3.BoolVal(len(s.cmds) == 0)
        motion = OR(cmd_is(s, *LINEAR), cmd_is(s, *PROBE))
        for L, g, v in words_of(s.params):
            vo = as_opt(v)
            if not isinstance(vo.inner, VNum): continue
            val = vo.inner; pres = AND(g, NOT(vo.none))
            if L == "F": cs.append(IMP(AND(pres, OR(bare, motion)), lim("feed-rate", val)))
            if L == "S":
                cs.append(IMP(AND(pres, OR(bare, motion, cmd_is(s, "M03", "M04"))), lim("tool-power", val)))
                cs.append(IMP(AND(pres, cmd_is(s, "M104", "M109")), lim("hotend-temperature", val)))
                cs.append(IMP(AND(pres, cmd_is(s, "M140", "M190")), lim("bed-temperature", val)))
                cs.append(IMP(AND(pres, cmd_is(s, "M141", "M191")), lim("chamber-temperature", val)))
            if L == "R":
                cs.append(IMP(AND(pres, cmd_is(s, "M109")), lim("hotend-temperature", val)))
                cs.append(IMP(AND(pres, cmd_is(s, "M190")), lim("bed-temperature", val)))
                cs.append(IMP(AND(pres, cmd_is(s, "M191")), lim("chamber-temperature", val)))
            if L == "T": cs.append(IMP(AND(pres, cmd_is(s, "M06")), lim("tool-number", val)))
            if L in AXES and self.transform == "identity":
                p, lo, hi = bounds_entry(h0, info["bounds"], "axes")
                i = AXES.index(L)
                l, h = lo.items()[i].inner, hi.items()[i].inner
                cur = M.c[L]
                tgt_rel = n_add(cur.inner, val)
                inside_abs = in_range(val, l, h)
                inside_rel = OR(cur.none, in_range(tgt_rel, l, h))
                cs.append(IMP(AND(pres, p, OR(motion, cmd_is(s, "G92"))),
                              ITE(AND(M.rel, NOT(cmd_is(s, "G92"))), inside_rel, inside_abs)))
        return AND(*cs)

    # ------------------------------------------------------------------ helpers for method-specific clauses
    def emits_exactly(self, e, codes, props, name="", known=None):
        """on exit e exactly len(codes) blocks are emitted and block i has command word codes[i] (None: no command word)"""
        blocks = emitted(e.log)
        ok = z3.BoolVal(len(blocks) == len(codes))
        if len(blocks) == len(codes):
            cs = []
            for (g, s), c in zip(blocks, codes):
                cs.append(g)
                if c is None: cs.append(z3.BoolVal(len(s.cmds) == 0))
                elif isinstance(c, (tuple, list)): cs.append(cmd_is(s, *c))
                elif isinstance(c, str): cs.append(cmd_is(s, c))
                else: cs.append(AND(z3.BoolVal(len(s.cmds) == 1), s.cmds[0].z() == c))
            ok = AND(*cs)
        self.ctx.check(f"emits exactly {name or codes} @{e.where}", ok, e, props, "post", known)

    def s1(self, f): return lambda e: fld(e.heap, self.sref, f)


# ---------------------------------------------------------------------------------------------- argument shapes
def no_args(ctx, st): return [], None, T, []


def enum_arg(cls):
    def mk(ctx, st):
        e, wf = sym_enum(cls, ctx.w, arg=True); return [e], None, wf, []
    return mk


def enum_num(cls, isint=False):
    def mk(ctx, st):
        e, wf = sym_enum(cls, ctx.w, arg=True)
        v, wfv = sym_num("v", isint=True if isint else None, finite=isint)
        return [e, v], None, AND(wf, wfv, z3.IsInt(v.val) if isint else T), [v.val]
    return mk


def one_num(ctx, st):
    v, wf = sym_num("v"); return [v], None, wf, [v.val]


def motion_args(ctx, st):
    pt, wfp = sym_point("pt")
    p = VOpt(fresh("pt_none", z3.BoolSort()), pt)
    kw, wfk, reals = mk_kwargs(st)
    return [p], kw, AND(wfp, wfk), reals + [c.inner.val for c in pt.items()]


def valid(ctx, e, cls):
    return AND(e.idx >= 0, e.idx < len(ctx.w.enum_members(cls)))


# ---------------------------------------------------------------------------------------------- tool / coolant / halt
def _tool_on(ctx, method, cls):
    b = B(ctx, method, enum_num(cls))
    mode, level = b.args
    off = mode.idx == member(ctx, cls, "OFF")
    active0 = fld(b.h0, b.sref, "_is_tool_active").t
    power_ok = AND(bound_ok(b.h0, b.info, "tool-power", level), NOT(n_lt(level, ZERO)), level.finite)
    bad_arg = OR(off, NOT(valid(ctx, mode, cls)))
    raises_iff(ctx, b.exits, {
        "ValueError": OR(bad_arg, AND(NOT(active0), NOT(power_ok))),   # argument validation only
        "ToolStateError": AND(NOT(bad_arg), active0),                                         # C02: only when a tool is already running
    }, props=["C02", "C03"])
    b.generic()
    for e in b.exits:
        if e.kind == "return":
            b.emits_exactly(e, [("M03", "M04")], ["C02", "C07"], "one M03/M04 block")
            ctx.canary("canary:level>0", n_lt(ZERO, level), e)


@unit("GCodeBuilder.tool_on", GEN + ["C06"])
def u_tool_on(ctx): _tool_on(ctx, "tool_on", "SpinMode")


@unit("GCodeBuilder.power_on", GEN + ["C06"])
def u_power_on(ctx): _tool_on(ctx, "power_on", "PowerMode")


def _off(ctx, method, code, flag):
    b = B(ctx, method, no_args)
    never_raises(ctx, b.exits, props=["C06", "C02"])
    b.generic()
    for e in b.exits:
        if e.kind == "return":
            b.emits_exactly(e, [code], ["C06", "C02"])
            ctx.check(f"C06 reports inactive @{e.where}", NOT(fld(e.heap, b.sref, flag).t), e, ["C06"], "post")
            ctx.canary("canary:was-active", fld(b.h0, b.sref, flag).t, e)


@unit("GCodeBuilder.tool_off", GEN + ["C06"])
def u_tool_off(ctx): _off(ctx, "tool_off", "M05", "_is_tool_active")


@unit("GCodeBuilder.power_off", GEN + ["C06"])
def u_power_off(ctx): _off(ctx, "power_off", "M05", "_is_tool_active")


@unit("GCodeBuilder.coolant_off", GEN + ["C06"])
def u_coolant_off(ctx): _off(ctx, "coolant_off", "M09", "_is_coolant_active")


@unit("GCodeBuilder.coolant_on", GEN)
def u_coolant_on(ctx):
    b = B(ctx, "coolant_on", enum_arg("CoolantMode"))
    (mode,) = b.args
    bad_arg = OR(mode.idx == member(ctx, "CoolantMode", "OFF"), NOT(valid(ctx, mode, "CoolantMode")))
    raises_iff(ctx, b.exits, {"ValueError": bad_arg,
                              "CoolantStateError": AND(NOT(bad_arg), fld(b.h0, b.sref, "_is_coolant_active").t)}, props=["C02"])
    b.generic()
    for e in b.exits:
        if e.kind == "return": b.emits_exactly(e, [("M07", "M08")], ["C02", "C07"])


@unit("GCodeBuilder.emergency_halt", GEN + ["C06"])
def u_emergency(ctx):
    def mk(ctx, st):
        return [VStr(None, fresh("msg", z3.StringSort())), VBool(fresh("reset", z3.BoolSort()))], None, T, []
    b = B(ctx, "emergency_halt", mk)
    msg, reset = b.args
    never_raises(ctx, b.exits, props=["C06", "C02"])
    b.generic()
    for e in b.exits:
        if e.kind == "return":
            blocks = emitted(e.log)
            b.emits_exactly(e, ["M05", "M09", None, ("M00", "M30")], ["C06"], "M05, M09, comment, M00|M30")
            if len(blocks) == 4:
                ctx.check("C06 final block is M30 iff reset", cmd_is(blocks[3][1], "M30") == reset.t, e, ["C06"], "post")
                ctx.check("C06 third block is the message comment", AND(blocks[2][1].has_comment, z3.BoolVal(len(blocks[2][1].params.present) == 0)), e, ["C06", "C09"], "post")
            ctx.check("C06 reports tool and coolant inactive", AND(NOT(fld(e.heap, b.sref, "_is_tool_active").t), NOT(fld(e.heap, b.sref, "_is_coolant_active").t)), e, ["C06"], "post")
