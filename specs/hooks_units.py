"""Contracts on gscrib/hooks/extrusion_hook.py (C20, second sentence)."""
import z3, math
from fractions import Fraction
from pyvc.values import *
from pyvc.state import State
from pyvc.ctx import unit
from specs.common import *
from specs.dsl import *


@unit("extrusion_hook.<locals>.hook_function", ["C20"])
def u_extrusion(ctx):
    st = State(T, {}, {}, []); x = ctx.executor()
    layer, _ = sym_num("layer", finite=True); nozzle, _ = sym_num("nozzle", finite=True); fil, _ = sym_num("filament", finite=True)
    ctx.assume(fil.val != 0)
    outer = ctx.run(x, "extrusion_hook", [layer, nozzle, fil], {}, st)
    never_raises(ctx, outer)
    ret = [e for e in outer if e.kind == "return"]
    ctx.check("extrusion_hook returns the hook closure", z3.BoolVal(len(ret) == 1 and isinstance(ret[0].payload, VClosure)), None, None, "post")
    hook = ret[0].payload
    # one call of the hook from an arbitrary state, with fully known origin/target (what _prepare_move passes)
    st2 = State(T, {}, ret[0].heap, [])
    pref, wfp, _ = mk_params(st2, "hp")
    sref, wfs, info = mk_state(st2, ctx.w, "hs", params_ref=pref)
    origin, w1 = known_point("origin", finite=True); target, w2 = known_point("target", finite=True)
    ctx.assume(wfp, wfs, w1, w2)
    d0 = st2.heap[pref.oid]["$d"]
    ctx.assume(OR(NOT(d0.present["E"]), d0.vals["E"].none, d0.vals["E"].inner.finite))      # a remembered E is a finite number
    h0 = st2.snap()
    x2 = ctx.executor()
    node, owner, mod = ctx.w.function("extrusion_hook.<locals>.hook_function")
    ctx.under_contract("extrusion_hook.<locals>.hook_function")
    x2.cur_mod = mod; x2.exits = []
    rv = x2.call_fn(node, [origin, target, pref, sref], {}, st2, closure=hook.env, qual="extrusion_hook.<locals>.hook_function")
    exits = list(x2.exits) + ([] if st2.dead else [__import__("pyvc.state", fromlist=["Exit"]).Exit("return", st2.pc, rv, st2.snap(), list(st2.log), None, "hook_function")])
    covers(ctx, exits); never_raises(ctx, exits)
    hy = x2.ghost["hypot"][0]
    ctx.check("the hook measures the move with a two-argument hypot (XY length, not the 3-D length)", z3.BoolVal(len(hy) == 3), None, None, "post")
    if len(hy) != 3: return
    a, b, h = hy
    dx, dy = target.x.inner.val - origin.x.inner.val, target.y.inner.val - origin.y.inner.val
    ctx.check("the length fed to the formula is the XY distance between origin and target", AND(a.val == dx, b.val == dy), None, None, "post")
    pi = Fraction(math.pi)
    cross = z3.Q(pi.numerator, pi.denominator) * (fil.val / 2) * (fil.val / 2)
    amount = (nozzle.val * layer.val) * h / cross
    absolute = h0[sref.oid]["_current_extrusion_mode"].idx == ctx.w.enum_index("ExtrusionMode", "ABSOLUTE")
    prevE = ITE(AND(d0.present["E"], NOT(d0.vals["E"].none)), d0.vals["E"].inner.val, z3.RealVal(0))
    for e in exits:
        if e.kind != "return": continue
        ctx.check("returns the params object it was given", z3.BoolVal(isinstance(e.payload, VRef) and e.payload.oid == pref.oid), e, None, "post")
        d1 = e.heap[pref.oid]["$d"]
        E = d1.vals["E"]
        ctx.check("E == (nozzle x layer / filament cross-section) x XY length, per move in relative extrusion mode",
                  IMP(NOT(absolute), AND(d1.present["E"], NOT(as_opt(E).none), as_opt(E).inner.finite, as_opt(E).inner.val == amount)), e, None, "post")
        ctx.check("E == remembered E (0 if none) + amount in absolute extrusion mode (running total, restartable by an E reset)",
                  IMP(absolute, AND(d1.present["E"], NOT(as_opt(E).none), as_opt(E).inner.val == prevE + amount)), e, None, "post")
        ctx.check("every other parameter is passed through unchanged",
                  AND(*[AND(d1.present[k] == d0.present[k], IMP(d0.present[k], v_same(d1.vals[k], d0.vals[k]))) for k in d0.present if k != "E"]), e, None, "frame")
        ctx.check("the state object is not modified by the hook", unchanged_obj(h0, e.heap, sref, skip=("_current_params",)), e, None, "frame")
        ctx.canary("canary:E==0", as_opt(E).inner.val == 0, e)
    ctx.trust("math.hypot(a, b): h >= 0 and h*h == a*a + b*b (assumed)", "math.pi is the double 0x400921FB54442D18 taken as an exact rational")
