"""Contracts on gscrib/writers/printrun_writer.py: device reports (C18) and reply classification (C16, C18).

Tokenisation: `VALUE_PATTERN.findall(message)` is an assumed contract — it returns the sequence of (key, value-text)
tokens of the report (bounded differential against an independent report grammar in specs/bounded.py).  Everything
after the tokenisation is proved: the loop of _parse_message with a loop contract stated for ONE arbitrary letter κ
(every fact proved for κ holds for every letter, the code never names κ)."""
import ast
import z3
from pyvc.values import *
from pyvc.state import State, Exit
from pyvc.ctx import unit
from specs.common import *
from specs.dsl import *

S = z3.StringSort()
isfloat = z3.Function("isfloat", S, z3.BoolSort())          # python float(s) succeeds
tofloat = z3.Function("tofloat", S, z3.RealSort())          # its value (finite decimal text)
isalnum = z3.Function("isalnum", S, z3.BoolSort())
nparts = z3.Function("nparts", S, z3.IntSort())             # len(s.split(","))
part = z3.Function("part", S, z3.IntSort(), S)              # s.split(",")[i]
AXES6 = ("X", "Y", "Z", "A", "B", "C")


def ext_float_of_str(x, v, st, n):
    x.raise_if(st, NOT(isfloat(v.z())), "ValueError", n)
    return VNum(z3.IntVal(0), tofloat(v.z()), False)


def ext_split(x, recv, args, kwargs, st, n):
    if not (args and args[0].py == ","): raise Unsupported("split separator")
    s = recv.z()
    x.assume.append(nparts(s) >= 1)
    items = []
    for i in range(7):       # zip(AXES, ...) looks at no more than 6 parts; a 7th guarded slot keeps 'more than 6' distinguishable
        p = VStr(None, part(s, z3.IntVal(i)))
        items.append(("$g", nparts(s) > i, p))
    return VList(items)


def ext_isalnum(x, recv, args, kwargs, st, n): return VBool(isalnum(recv.z()))


upperf = z3.Function("upper", S, S)
REPORT_KEYS = ("MPos", "WPos", "PRB", "FS", "X", "Y", "Z", "A", "B", "C", "E", "F", "S", "T")


def ext_upper(x, recv, args, kwargs, st, n):
    """str.upper() as an uninterpreted function with the facts the report grammar needs: same length, idempotent, its value on the literal report keys,
    and: no string upper-cases to a key that contains a lower-case letter"""
    s = recv.z(); u = upperf(s)
    x.assume.append(AND(z3.Length(u) == z3.Length(s), upperf(u) == u,
                        *[IMP(s == z3.StringVal(k), u == z3.StringVal(k.upper())) for k in REPORT_KEYS],
                        *[u != z3.StringVal(k) for k in REPORT_KEYS if k != k.upper()]))
    return VStr(None, u)


def ext_map(x, args, kwargs, st, n):
    fn, seq = args
    out = []
    for g, v in x.iter_items(seq, st, n):
        pc0 = st.pc; st.pc = simp(AND(pc0, g))
        r = x.call_value(fn, [v], {}, st, n)
        st.pc = simp(OR(AND(pc0, NOT(g)), st.pc))
        out.append(("$g", g, r))
    return VList(out)


def mk_writer(st, kappa):
    rep = st.alloc("SymSet", {"$in": VBool(fresh("in_reported", z3.BoolSort()))})
    val, wf = opt_num("reading", finite=True)
    cur = st.alloc("SymParams", {"$val": val})
    ack = st.alloc("Event", {"$set": VBool(fresh("ack_was_set", z3.BoolSort()))})
    w = st.alloc("PrintrunWriter", {"_reported_params": rep, "_current_params": cur, "_logger": NONE, "_ack_event": ack,
                                    "_device_error": VOpt(fresh("had_error", z3.BoolSort()), VExc("DeviceError"))})
    return w, rep, cur, ack, wf


def install_report(x, kappa):
    def s_contains(x_, recv, args, kwargs, st):
        k = args[0]
        return VBool(ITE(k.z() == kappa, st.heap[recv.oid]["$in"].t, fresh("in_other", z3.BoolSort())))
    def s_add(x_, recv, args, kwargs, st):
        o = st.heap[recv.oid]; o["$in"] = VBool(simp(OR(o["$in"].t, args[0].z() == kappa))); return NONE
    def s_clear(x_, recv, args, kwargs, st):
        st.heap[recv.oid]["$in"] = VBool(F); return NONE
    def p_set(x_, recv, args, kwargs, st):
        k, v = args
        o = st.heap[recv.oid]
        # ParamsDict upper-cases its keys; report keys are upper-case (assumption A-upper), so the key itself is the slot
        o["$val"] = merge(simp(k.z() == kappa), as_opt(v), o["$val"]); return NONE
    def p_get(x_, recv, args, kwargs, st):
        k = args[0]
        return merge(simp(k.z() == kappa), st.heap[recv.oid]["$val"], VOpt(fresh("other_none", z3.BoolSort()), sym_num("other", finite=True)[0]))
    c = x.contracts
    c[("SymSet", "__contains__")] = s_contains; c[("SymSet", "add")] = s_add; c[("SymSet", "clear")] = s_clear
    c[("SymParams", "__setitem__")] = p_set; c[("SymParams", "get")] = p_get
    c[("Event", "set")] = lambda x_, recv, args, kwargs, st: (st.heap[recv.oid].__setitem__("$set", VBool(T)), NONE)[1]
    x.ext["float_of_str"] = ext_float_of_str
    x.ext["str.split"] = ext_split
    x.ext["str.isalnum"] = ext_isalnum
    x.ext["str.upper"] = ext_upper
    x.ext["map"] = ext_map


def produces(key, value, message):
    """what one token of a report reports, per the families of the statement: [(guard, letter term, real value)] in order"""
    k, v = key, value
    single = AND(z3.Length(k) == 1, isalnum(k))
    fs = AND(NOT(single), k == z3.StringVal("FS"), z3.PrefixOf(z3.StringVal("<"), message))
    pos = AND(NOT(single), NOT(fs), OR(k == z3.StringVal("MPos"), k == z3.StringVal("WPos"), k == z3.StringVal("PRB")))
    out = [(single, k, tofloat(v))]
    out += [(AND(fs, nparts(v) == 2), z3.StringVal("F"), tofloat(part(v, 0))), (AND(fs, nparts(v) == 2), z3.StringVal("S"), tofloat(part(v, 1)))]
    for i, a in enumerate(AXES6):
        out.append((AND(pos, nparts(v) > i), z3.StringVal(a), tofloat(part(v, i))))
    return out


def wellformed(key, value):
    """values are signed decimals (lists of them for the comma separated families)"""
    return AND(isfloat(value), *[IMP(nparts(value) > i, isfloat(part(value, z3.IntVal(i)))) for i in range(7)], nparts(value) >= 1)


def fold(seen, first, prods, kappa):
    for g, letter, val in prods:
        hit = AND(g, letter == kappa, NOT(seen))
        first = ITE(hit, val, first); seen = OR(seen, AND(g, letter == kappa))
    return seen, first


def make_loop(ctx, w, rep, cur, kappa, message, old_val, record):
    def handler(x, node, st):
        def inv(heap, seen, first):
            v = heap[cur.oid]["$val"]
            return AND(heap[rep.oid]["$in"].t == seen, IMP(seen, AND(NOT(v.none), v.inner.finite, v.inner.val == first)), IMP(NOT(seen), v_same(v, old_val)))
        record.append(("loop invariant holds on entry (nothing seen yet)", st.pc, inv(st.heap, F, z3.RealVal(0))))
        # generic iteration: havoc what the body assigns, assume the invariant for the tokens folded so far
        seen = fresh("seen", z3.BoolSort()); first = fresh("first", z3.RealSort())
        s2 = st.fork()
        s2.heap[rep.oid]["$in"] = VBool(fresh("in_k", z3.BoolSort()))
        hv, _ = opt_num("val_k", finite=True); s2.heap[cur.oid]["$val"] = hv
        key = VStr(None, fresh("key", S)); value = VStr(None, fresh("value", S))
        s2.pc = simp(AND(st.pc, inv(s2.heap, seen, first), wellformed(key.z(), value.z())))
        x.assign(node.target, VTuple([key, value]), s2)
        n0 = len(x.exits)
        x.block(node.body, s2)
        bad = [e for e in x.exits[n0:]]
        if bad: raise Unsupported(f"the loop body has abrupt exits {bad}")
        seen2, first2 = fold(seen, first, produces(key.z(), value.z(), message), kappa)
        record.append(("loop invariant preserved by one token (first occurrence wins, other letters untouched)", s2.pc, inv(s2.heap, seen2, first2)))
        # after the loop: the invariant for the whole token sequence
        seenN = fresh("seen_all", z3.BoolSort()); firstN = fresh("first_all", z3.RealSort())
        st.heap[rep.oid]["$in"] = VBool(fresh("in_end", z3.BoolSort()))
        ev, _ = opt_num("val_end", finite=True); st.heap[cur.oid]["$val"] = ev
        st.pc = simp(AND(st.pc, inv(st.heap, seenN, firstN)))
        x.ghost["seenN"], x.ghost["firstN"] = seenN, firstN
    return handler


@unit("PrintrunWriter._parse_message", ["C18", "C16"])
def u_parse(ctx):
    st = State(T, {}, {}, []); x = ctx.executor()
    kappa = fresh("kappa", S)
    install_report(x, kappa)
    w, rep, cur, ack, wf = mk_writer(st, kappa)
    ctx.assume(wf)
    message = VStr(None, fresh("message", S))
    old_val = st.heap[cur.oid]["$val"]
    record = []
    x.ext_names["VALUE_PATTERN"] = st.alloc("RePattern", {})
    x.contracts[("RePattern", "findall")] = lambda x_, recv, args, kwargs, st_: st_.alloc("TokenSeq", {"$of": args[0]})
    x.loop_handlers[("PrintrunWriter._parse_message", 1)] = make_loop(ctx, w, rep, cur, kappa, message.z(), old_val, record)
    exits = ctx.run(x, "PrintrunWriter._parse_message", [w, message], {}, st)
    for name, pc, f in record: ctx.check(name, IMP(pc, f), None, None, "inv")
    covers(ctx, exits); never_raises(ctx, exits)
    seenN, firstN = x.ghost["seenN"], x.ghost["firstN"]
    for e in exits:
        if e.kind != "return": continue
        v = e.heap[cur.oid]["$val"]
        ctx.check("a reported letter reads the value that appears FIRST in the report", IMP(seenN, AND(NOT(v.none), v.inner.val == firstN)), e, None, "post")
        ctx.check("a letter the report does not mention keeps its earlier reading", IMP(NOT(seenN), v_same(v, old_val)), e, None, "post")
    # the per-token step relation itself, for the three families (sanity of the spec function; refutable canary next to it)
    ctx.canary("canary: a report never changes a reading", v_same(exits[-1].heap[cur.oid]["$val"], old_val), exits[-1])
    ctx.trust("re: VALUE_PATTERN.findall(message) returns the report's (key, value-text) tokens in order (assumed; bounded differential)",
              "float(text) of a signed decimal is its value; str.split(',') / str.isalnum as uninterpreted functions",
              "A-upper: report keys are upper-case (ParamsDict upper-cases keys; 'x:' and 'X:' in one report are outside the statement)")


@unit("PrintrunWriter._update_param", ["C18", "C16"])
def u_update(ctx):
    st = State(T, {}, {}, []); x = ctx.executor()
    kappa = fresh("kappa", S)
    install_report(x, kappa)
    w, rep, cur, ack, wf = mk_writer(st, kappa)
    key = VStr(None, fresh("key", S)); v, _ = sym_num("v", finite=True)
    ctx.assume(wf)
    h0 = st.snap()
    exits = ctx.run(x, "PrintrunWriter._update_param", [w, key, v], {}, st)
    covers(ctx, exits); never_raises(ctx, exits)
    was = h0[rep.oid]["$in"].t
    for e in exits:
        if e.kind != "return": continue
        nv = e.heap[cur.oid]["$val"]
        ctx.check("first occurrence wins: the reading changes only for a letter not yet seen in this report",
                  ITE(AND(key.z() == kappa, NOT(was)), AND(NOT(nv.none), nv.inner.val == v.val), v_same(nv, h0[cur.oid]["$val"])), e, None, "post")
        ctx.check("the letter is marked as seen", e.heap[rep.oid]["$in"].t == OR(was, key.z() == kappa), e, None, "post")


@unit("PrintrunWriter._on_device_message", ["C18", "C16"])
def u_on_message(ctx):
    st = State(T, {}, {}, []); x = ctx.executor()
    kappa = fresh("kappa", S)
    install_report(x, kappa)
    w, rep, cur, ack, wf = mk_writer(st, kappa)
    ctx.assume(wf)
    strip = z3.Function("strip", S, S); lower = z3.Function("lower", S, S)
    x.ext["str.strip"] = lambda x_, recv, args, kwargs, st_, n: VStr(None, strip(recv.z()))
    x.ext["str.lower"] = lambda x_, recv, args, kwargs, st_, n: VStr(None, lower(recv.z()))
    def sw(x_, recv, args, kwargs, st_, n):
        p = args[0]
        ps = p.items if isinstance(p, VTuple) else [p]
        return VBool(OR(*[z3.PrefixOf(q.z(), recv.z()) for q in ps]))
    x.ext["str.startswith"] = sw
    parsed = []
    def h_parse(x_, recv, args, kwargs, st_):
        st_.log.append((T, ("parse", args[0]))); return NONE
    x.contracts[("PrintrunWriter", "_parse_message")] = h_parse
    message = VStr(None, fresh("message", S))
    h0 = st.snap()
    exits = ctx.run(x, "PrintrunWriter._on_device_message", [w, message], {}, st)
    covers(ctx, exits); never_raises(ctx, exits)
    m = strip(message.z()); lm = lower(m)
    is_ok = z3.PrefixOf(z3.StringVal("ok"), lm)
    is_err = AND(NOT(is_ok), OR(*[z3.PrefixOf(z3.StringVal(p), lm) for p in ("error", "alarm", "!!")]))
    for e in exits:
        if e.kind != "return": continue
        pg = OR(*[AND(g, ev[1].z() == m) for g, ev in e.log if ev[0] == "parse"])
        n_parse = len([1 for g, ev in e.log if ev[0] == "parse"])
        ack1 = e.heap[ack.oid]["$set"].t
        err1 = e.heap[w.oid]["_device_error"]
        ctx.check("C18 a report is parsed whether or not it starts with ok (error replies are not parsed)", pg == NOT(is_err), e, ["C18"], "post")
        ctx.check("C16 ok... acknowledges; error|alarm|!!... (case-insensitive) stores a DeviceError and acknowledges; other lines do neither",
                  AND(IMP(is_ok, ack1), IMP(is_err, AND(ack1, NOT(as_opt(err1).none))),
                      IMP(AND(NOT(is_ok), NOT(is_err)), AND(ack1 == h0[ack.oid]["$set"].t, v_same(as_opt(err1), as_opt(h0[w.oid]["_device_error"]))))), e, ["C16", "C18"], "post")
        ctx.check("C16 an ok reply does not create an error", IMP(is_ok, v_same(as_opt(err1), as_opt(h0[w.oid]["_device_error"]))), e, ["C16"], "post")
    ctx.canary("canary: every message is acknowledged", exits[-1].heap[ack.oid]["$set"].t, exits[-1])
    ctx.trust("str.strip / str.lower as uninterpreted functions; str.startswith as prefix test")
