"""Replay harness: turn a solver model of a symbolic pre-state into real gscrib objects, run the REAL function on the
same tree the VCs came from, and compare what really happened with the symbolic exit the model selects (DESIGN §6.1).

Used (a) to confirm a counterexample natively before it is reported as a VIOLATION, and (b) as the engine self-check:
for every exit of every function under contract one model is replayed and any disagreement is a checker defect."""
import io, math, importlib, sys, os, copy
from pyvc.values import *
from pyvc import vc
from pyvc.world import REPO

if REPO not in sys.path: sys.path.insert(0, REPO)


def enum_lookup_factory(world):
    import gscrib.enums as E
    def look(cls, i):
        members = world.enum_members(cls)
        if 0 <= i < len(members): return getattr(getattr(E, cls), members[i][0])
        return "¿not-a-valid-value?"
    return look


def conc(world, model, v, heap):
    return vc.concretize(model, v, heap, world, enum_lookup_factory(world))


def realize_bounds(world, model, heap, bref):
    from gscrib.geometry.bounds import BoundManager
    bm = BoundManager()
    d = heap[heap[bref.oid]["_bounds"].oid]["$d"]
    for k in d.present:
        if vc.c_bool(model, d.present[k]):
            lo, hi = d.vals[k].items
            bm._bounds[k] = (conc(world, model, lo, heap), conc(world, model, hi, heap))
    return bm


def realize_params(world, model, heap, pref):
    from gscrib.params import ParamsDict
    p = ParamsDict()
    for k, v in conc(world, model, pref, heap).items(): dict.__setitem__(p, k, v)
    return p


def realize_state(world, model, heap, sref, params=None):
    from gscrib.gcode_state import GState
    s = GState()
    obj = heap[sref.oid]
    for f, v in obj.items():
        if f == "_user_bounds": s._user_bounds = realize_bounds(world, model, heap, v)
        elif f == "_current_params": s._current_params = params if params is not None else realize_params(world, model, heap, v)
        elif f.startswith("$"): continue
        else: setattr(s, f, conc(world, model, v, heap))
    return s


def observe_state(s):
    out = {}
    for f in s.__slots__:
        v = getattr(s, f)
        if f == "_user_bounds": out[f] = {k: tuple(b) for k, b in v._bounds.items()}
        elif f == "_current_params": out[f] = dict(v)
        else: out[f] = v
    return out


def expected_state(world, model, heap, sref):
    out = {}
    obj = heap[sref.oid]
    for f, v in obj.items():
        if f.startswith("$"): continue
        if f == "_user_bounds":
            d = heap[heap[v.oid]["_bounds"].oid]["$d"]
            out[f] = {k: tuple(conc(world, model, x, heap) for x in d.vals[k].items) for k in d.present if vc.c_bool(model, d.present[k])}
        elif f == "_current_params": out[f] = conc(world, model, v, heap)
        else: out[f] = conc(world, model, v, heap)
    return out


def diff_dicts(exp, got, tol=1e-9, prefix=""):
    bad = []
    for k in sorted(set(exp) | set(got), key=str):
        if k not in exp or k not in got: bad.append(f"{prefix}{k}: expected {exp.get(k, '<absent>')!r} got {got.get(k, '<absent>')!r}"); continue
        a, b = exp[k], got[k]
        if isinstance(a, dict) and isinstance(b, dict): bad += diff_dicts(a, b, tol, prefix + str(k) + ".")
        elif not vc.same_py(_norm(a), _norm(b), tol): bad.append(f"{prefix}{k}: expected {a!r} got {b!r}")
    return bad


def _norm(v):
    try:
        import numpy as np
        if isinstance(v, np.generic): return v.item()
    except Exception: pass
    if isinstance(v, tuple) and hasattr(v, "_fields"): return tuple(_norm(c) for c in v)
    if isinstance(v, (tuple, list)): return type(v)(_norm(c) for c in v)
    return v


def active_exit(model, exits):
    act = [e for e in exits if vc.c_bool(model, e.cond)]
    return act


def call_real(fn, args, kwargs):
    try:
        r = fn(*args, **kwargs)
        return ("return", r, None)
    except BaseException as e:   # noqa
        return ("raise", type(e).__name__, e)


def outcome_matches(world, outcome, e):
    if outcome[0] != e.kind: return False
    if e.kind == "raise":
        return outcome[1] == e.payload or world.exc_matches(outcome[1], e.payload) and world.exc_matches(e.payload, outcome[1])
    return True


def jsonable(v):
    v = _norm(v)
    if isinstance(v, float):
        if v != v: return "nan"
        if v in (float("inf"), float("-inf")): return "inf" if v > 0 else "-inf"
        return v
    if isinstance(v, dict): return {str(k): jsonable(x) for k, x in v.items()}
    if isinstance(v, (list, tuple)): return [jsonable(x) for x in v]
    if isinstance(v, (int, str, bool)) or v is None: return v
    return repr(v)


def state_method_replayer(ctx, world, method, sref, h0, arg_vals, exits, result_cmp=None):
    """replayer for a GState method: args are symbolic values concretised under the model"""
    def rp(model, obl, cover):
        s = realize_state(world, model, h0, sref)
        args = [conc(world, model, a, h0) for a in arg_vals]
        pre = observe_state(s)
        out = call_real(getattr(s, method), args, {})
        act = active_exit(model, exits)
        info = {"call": f"GState.{method}({', '.join(repr(a) for a in args)})", "pre_state": jsonable(pre),
                "observed": [out[0], jsonable(out[1]) if out[0] == "return" else out[1]], "post_state": jsonable(observe_state(s))}
        if len(act) != 1:
            info.update(agrees=False, reproduced=False, detail=f"{len(act)} symbolic exits active under the model (expected exactly 1)")
            return info
        e = act[0]
        bad = []
        if not outcome_matches(world, out, e): bad.append(f"outcome: symbolic {e.kind}:{e.payload if e.kind == 'raise' else ''} real {out[0]}:{out[1] if out[0] == 'raise' else ''}")
        bad += diff_dicts(expected_state(world, model, e.heap, sref), observe_state(s))
        if e.kind == "return" and result_cmp is not None and out[0] == "return":
            exp = conc(world, model, e.payload, e.heap)
            if not vc.same_py(_norm(exp), _norm(out[1]), 1e-9): bad.append(f"result: expected {exp!r} got {out[1]!r}")
        info["symbolic_exit"] = f"{e.kind}:{e.payload if e.kind == 'raise' else ''} @{e.where}"
        info["agrees"] = not bad
        info["detail"] = "; ".join(bad[:6])
        # a violated clause is reproduced natively when the real run lands in exactly the symbolic exit the clause fails on
        info["reproduced"] = (not bad) and (obl.exit is None or obl.exit is e)
        return info
    return rp


# ---------------------------------------------------------------------------------------------- builder
class CaptureWriter:
    """a BaseWriter that records the bytes it is given (registered through the public add_writer)"""
    def __new__(cls):
        from gscrib.writers.base_writer import BaseWriter
        class _Cap(BaseWriter):
            def __init__(self): self.chunks = []
            def connect(self): return self
            def disconnect(self, wait=True): pass
            def write(self, statement): self.chunks.append(bytes(statement))
        return _Cap()


def realize_builder(world, model, heap, g, info, decimals=12):
    import numpy as np
    from gscrib import GCodeBuilder
    b = GCodeBuilder()
    for w in list(b._writers): b.remove_writer(w)
    cap = CaptureWriter(); b.add_writer(cap)
    b._formatter.set_decimal_places(decimals)
    b._formatter.set_line_endings("\\n")
    obj = heap[g.oid]
    params = realize_params(world, model, heap, obj["_current_params"])
    b._current_params = params
    b._state = realize_state(world, model, heap, obj["_state"], params=params)
    b._current_axes = conc(world, model, obj["_current_axes"], heap)
    b._distance_mode = conc(world, model, obj["_distance_mode"], heap)
    b._direction = conc(world, model, obj["_direction"], heap)
    tr = heap[obj["_transformer"].oid]
    M = np.eye(4)
    for i in range(3):
        for j in range(3): M[i, j] = conc(world, model, tr["$A"][i][j], heap)
        M[i, 3] = conc(world, model, tr["$b"][i], heap)
    if not np.array_equal(M, np.eye(4)):
        b._transformer._current_transform._set_matrix(M)
    return b, cap


def observe_builder(b):
    return {"position": b._current_axes, "distance_mode": b._distance_mode, "params": dict(b._current_params),
            "state": observe_state(b._state), "params_shared": b._current_params is b._state._current_params}


def expected_builder(world, model, heap, g):
    obj = heap[g.oid]
    return {"position": conc(world, model, obj["_current_axes"], heap), "distance_mode": conc(world, model, obj["_distance_mode"], heap),
            "params": conc(world, model, obj["_current_params"], heap), "state": expected_state(world, model, heap, obj["_state"])}


def expected_blocks(world, model, log, heap):
    from specs.common import words_of
    out = []
    for g, ev in log:
        if ev[0] != "emit" or not vc.c_bool(model, g): continue
        s = ev[1]
        cmds = [conc(world, model, c, heap) for c in s.cmds]
        words = {}
        for l, wg, v in words_of(s.params):
            if vc.c_bool(model, wg): words[l] = conc(world, model, v, heap)
        out.append({"cmds": cmds, "words": words})
    return out


def compare_blocks(exp, lines):
    from specs.lexer import lex_line
    bad = []
    if len(exp) != len(lines): return [f"emitted {len(lines)} lines, symbolic log has {len(exp)} blocks: {lines!r}"]
    for e, l in zip(exp, lines):
        got = lex_line(l)
        def canon(c): return c.replace("G0", "G").replace("M0", "M") if len(c) == 3 and c[1] == "0" else c
        if [canon(c) for c in e["cmds"]] != [canon(c) for c in got["cmds"]]: bad.append(f"command words {e['cmds']} vs line {l!r}")
        ew = {k: v for k, v in e["words"].items() if isinstance(v, (int, float))}
        if set(ew) != set(got["words"]): bad.append(f"address words {sorted(ew)} vs line {l!r}")
        else:
            for k in ew:
                if not vc.same_py(float(ew[k]), got["words"][k], 1e-9) and abs(float(ew[k]) - got["words"][k]) > 1e-9: bad.append(f"word {k}: {ew[k]} vs line {l!r}")
    return bad


def builder_method_replayer(ctx, world, method, g, info, h0, arg_vals, kw_ref, exits, extra=None, prepare=None):
    def rp(model, obl, cover):
        b, cap = realize_builder(world, model, h0, g, info)
        if prepare is not None: prepare(b, model)
        args = [conc(world, model, a, h0) for a in arg_vals]
        kwargs = conc(world, model, kw_ref, h0) if kw_ref is not None else {}
        pre = observe_builder(b)
        out = call_real(getattr(b, method), args, kwargs)
        lines = b"".join(cap.chunks).decode("utf-8").split("\n")[:-1]
        post = observe_builder(b)
        info_ = {"call": f"GCodeBuilder.{method}({', '.join([repr(a) for a in args] + [f'{k}={v!r}' for k, v in kwargs.items()])})",
                 "pre_state": jsonable(pre), "observed": [out[0], jsonable(out[1]) if out[0] == "return" else f"{out[1]}: {out[2]}"],
                 "emitted_lines": lines, "post_state": jsonable(post)}
        act = active_exit(model, exits)
        if len(act) != 1:
            info_.update(agrees=False, reproduced=False, detail=f"{len(act)} symbolic exits active under the model (expected exactly 1)")
            return info_
        e = act[0]
        bad = []
        if not outcome_matches(world, out, e): bad.append(f"outcome: symbolic {e.kind}:{e.payload if e.kind == 'raise' else ''} real {out[0]}:{out[1] if out[0] == 'raise' else ''}")
        post.pop("params_shared", None)
        bad += diff_dicts(expected_builder(world, model, e.heap, g), post)
        bad += compare_blocks(expected_blocks(world, model, e.log, e.heap), lines)
        info_["symbolic_exit"] = f"{e.kind}:{e.payload if e.kind == 'raise' else ''} @{e.where}"
        info_["agrees"] = not bad
        info_["detail"] = "; ".join(bad[:6])
        info_["reproduced"] = (not bad) and (obl.exit is None or obl.exit is e)
        if extra is not None: extra(model, obl, b, lines, info_)
        return info_
    return rp


# ---------------------------------------------------------------------------------------------- coordinate transformer
def _real_transform(world, model, heap, ref):
    import numpy as np
    from gscrib.geometry.transform import Transform
    t = Transform.__new__(Transform)
    for f in ("_matrix", "_inverse", "_to_pivot", "_from_pivot"):
        d = heap[heap[ref.oid][f].oid]["$a"]
        setattr(t, f, np.array([[conc(world, model, c, heap) for c in row] for row in d], dtype=float))
    t._pivot = conc(world, model, heap[ref.oid]["_pivot"], heap)
    return t


def _obs_transform(t):
    return {f: [[float(c) for c in row] for row in getattr(t, f)] for f in ("_matrix", "_inverse", "_to_pivot", "_from_pivot")} | {"_pivot": tuple(t._pivot)}


def transformer_replayer(ctx, world, method, tr, info, h0, arg_vals, exits):
    def rp(model, obl, cover):
        import numpy as np
        from gscrib.geometry.transformer import CoordinateTransformer
        # numpy.linalg.inv raising LinAlgError is an assumed external behaviour chosen by a free boolean, not by the matrices of the model: not replayable
        if obl.exit is not None and obl.exit.kind == "raise" and obl.exit.payload == "LinAlgError": return None
        real = CoordinateTransformer()
        o = h0[tr.oid]
        real._current_transform = _real_transform(world, model, h0, o["_current_transform"])
        sobj = h0[o["_transforms_stack"].oid]
        plen = int(str(model.eval(sobj["$plen"].val, model_completion=True)).split("/")[0]) if "$plen" in sobj else 0
        plen = max(0, min(plen, 3))
        real._transforms_stack = [_real_transform(world, model, h0, o["_current_transform"]) for _ in range(plen)] + \
                                 [_real_transform(world, model, h0, r) for r in sobj["$l"].items]
        nd = h0[o["_named_transforms"].oid]["$d"]
        real._named_transforms = {k: _real_transform(world, model, h0, nd.vals[k]) for k in nd.present if vc.c_bool(model, nd.present[k])}
        args = [conc(world, model, a, h0) for a in arg_vals]
        out = call_real(getattr(real, method), args, {})
        act = active_exit(model, exits)
        info_ = {"call": f"CoordinateTransformer.{method}({', '.join(repr(a) for a in args)})", "observed": [out[0], out[1] if out[0] == "raise" else None],
                 "named_before": sorted(nd_k for nd_k in real._named_transforms)}
        if len(act) != 1:
            info_.update(agrees=False, reproduced=False, detail=f"{len(act)} symbolic exits active"); return info_
        e = act[0]; bad = []
        if not outcome_matches(world, out, e): bad.append(f"outcome: symbolic {e.kind}:{e.payload} real {out[0]}:{out[1]}")
        eo = e.heap[tr.oid]
        def cmp(name, real_t, ref):
            exp = {f: [[conc(world, model, c, e.heap) for c in row] for row in e.heap[e.heap[ref.oid][f].oid]["$a"]] for f in ("_matrix", "_inverse", "_to_pivot", "_from_pivot")}
            got = _obs_transform(real_t)
            for f in exp:
                if not vc.same_py(exp[f], got[f], 1e-7): bad.append(f"{name}.{f}: expected {exp[f]} got {got[f]}")
        cmp("current", real._current_transform, eo["_current_transform"])
        vis = e.heap[eo["_transforms_stack"].oid]["$l"].items
        if len(real._transforms_stack) != plen + len(vis): bad.append(f"stack length: expected prefix+{len(vis)} got {len(real._transforms_stack)}")
        else:
            for i, r in enumerate(vis): cmp(f"stack[{i}]", real._transforms_stack[plen + i], r)
        nd1 = e.heap[eo["_named_transforms"].oid]["$d"]
        exp_names = sorted(k for k in nd1.present if vc.c_bool(model, nd1.present[k]))
        if exp_names != sorted(real._named_transforms): bad.append(f"named keys: expected {exp_names} got {sorted(real._named_transforms)}")
        else:
            for k in exp_names: cmp(f"named[{k}]", real._named_transforms[k], nd1.vals[k])
        # aliasing structure: which registered objects is the current transform identical to
        real_alias = sorted(k for k, t in real._named_transforms.items() if t is real._current_transform)
        sym_alias = sorted(k for k in exp_names if nd1.vals[k].oid == eo["_current_transform"].oid)
        if real_alias != sym_alias: bad.append(f"aliasing current~named: symbolic {sym_alias} real {real_alias}")
        info_["aliasing_current_named"] = real_alias
        info_["symbolic_exit"] = f"{e.kind}:{e.payload if e.kind == 'raise' else ''} @{e.where}"
        info_["agrees"] = not bad; info_["detail"] = "; ".join(bad[:4])
        info_["reproduced"] = (not bad) and (obl.exit is None or obl.exit is e)
        return info_
    return rp
