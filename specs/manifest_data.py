"""What MANIFEST.json claims (bin/mkmanifest turns this into the file)."""

BRIDGE = ("A-bridge: the emitted TEXT is related to the abstract blocks only through the formatter contracts "
          "(DefaultFormatter.command/parameters/comment assumed at call sites, verified separately) and a bounded lexer round trip; ")
COMMON = ("A-real (float arithmetic on finite values = exact real arithmetic), A-types (@typechecked dropped, annotated types assumed), "
          "A-log (logging has no effect), A-writers (writers do not raise and do not touch the builder), A-kwargs (keyword parameters "
          "of motion calls are numbers; x/y/z may be None), hooks do not mutate the builder. ")
HIST = ("History quantifier: each public method is proved to preserve the invariant from an ARBITRARY well-formed state (all tracked "
        "fields symbolic), so the per-call obligations extend to every finite call sequence by induction (DESIGN §3.5); callers that "
        "reach around the API (g.write(raw), g.state._set_*) are outside the theorem. ")

CHECKS = {
 "C01": dict(category="proof",
   text="For every motion/mode method of GCodeBuilder (move, rapid, move_absolute, rapid_absolute, set_axis, auto_home, probe, "
        "set_distance_mode and every other emitting method) the agreement relation R(machine, builder) — same distance mode, and on every "
        "axis whose machine coordinate is known the builder reports exactly that coordinate — is proved to be preserved on the normal AND on "
        "every exceptional exit, for all arguments and all well-formed pre-states, with the independent G0/G1/G90/G91/G92/G28/G38.x "
        "interpreter of specs/ghost.py folded over the blocks the call emits. Identity transform.",
   note=COMMON + BRIDGE + HIST),
 "C02": dict(category="proof",
   text="Exact raises-iff contracts for every interlocked method (tool_on/power_on/coolant_on/tool_change/halt/wait/pause/stop and the "
        "GState setters they use): ToolStateError/CoolantStateError are raised exactly under the documented conditions, ValueError exactly "
        "under argument validation; every block any builder method emits is proved safe in the modal state it is emitted in (no M03/M04 "
        "while the tool runs, no M07/M08 while coolant is on, no M06/halt/wait code while either is active); the tool/coolant flags "
        "mirror the emitted program after every call.",
   note=COMMON + BRIDGE + HIST),
 "C03": dict(category="proof",
   text="BoundManager-backed validation is proved inclusive and NaN-rejecting for every setter; for every builder method every emitted "
        "F/S/T/temperature word and every commanded axis target (absolute word, or machine coordinate + word in relative mode; G92 "
        "included) is proved to lie inside the configured limits, for an arbitrary bounds table (any subset, any min/max incl. NaN/inf).",
   note=COMMON + BRIDGE + HIST + "G28 coordinates are not treated as targets (gscrib documents them as relative to the endstops). "
        "Known finding KF-C03-halt-second-temperature-word is proved to be the only exception."),
 "C05": dict(category="proof",
   text="For every public builder method and every GState setter: on each exceptional exit the builder's tracked fields, the whole state "
        "object, the bounds table and the remembered parameters are proved identical to the pre-state and no block is emitted. "
        "Two known findings (move_absolute/rapid_absolute in relative mode; F/S stored before an absolute-bypass "
        "target is rejected) are carved out by explicit input regions: the clause is proved outside them and each region is "
        "re-confirmed by native replay on every run.",
   note=COMMON + BRIDGE),
 "C06": dict(category="proof",
   text="tool_off, power_off, coolant_off and emergency_halt are proved to have NO exceptional exit from any well-formed state under ANY "
        "bounds table, to emit exactly M05 / M05 / M09 / (M05, M09, message comment, M00|M30 by the reset flag) and to leave the state "
        "reporting tool/coolant inactive.",
   note=COMMON + BRIDGE),
 "C07": dict(category="proof",
   text="Mirror relation, field by field (tool flag, start code, power, coolant, tool number, feed rate, distance/extrusion/feed modes, "
        "units, plane, three target temperatures, remembered non-axis parameters): the reference modal interpreter of specs/modal.py is "
        "folded over the blocks each method emits and the resulting modal state is proved equal to what the state object reports, on every "
        "exit of every state-tracked builder method; gscrib's enum->instruction table is read from gcode_mappings.py on every run while the "
        "interpreter uses an independent literal table.",
   note=COMMON + BRIDGE + HIST + "Axis keys X/Y/Z of get_parameter are excluded (position is tracked through C01). Rejected-call exits inside "
        "the C05 known-finding regions are carved out with the same regions."),
 "C04": dict(category="proof",
   text="Transform.apply is proved to compute A·resolve(p)+b from the matrix; _chain_matrix is proved to left-compose T(p)·K·T(-p) about the "
        "pivot; translate/scale(1,2,3 args)/reflect/mirror/rotate are proved to pass the documented elementary matrix K (rotate: the right "
        "rotation vector, angle·π/180 about the chosen axis, embedded in the upper-left 3x3); and for an ARBITRARY invertible affine map "
        "(A, b) move/rapid/probe are proved to emit, per axis word, the image of the target (absolute) or the linear image of the displacement "
        "(relative), to mention every axis whose machine coordinate changes, and to keep the machine at transform(tracked position).",
   note=COMMON + BRIDGE + "A-numpy (@, eye, diag, outer, slicing, copy have their mathematical meaning over the reals), linalg.inv / linalg.norm / scipy "
        "Rotation specified by their defining equations (assumed). The end-to-end relation is stated for fully known tracked positions "
        "(after homing/probing under a non axis-aligned transform the image of an unknown coordinate is undefined). A-real: in floats an "
        "axis may additionally be emitted because of rounding noise, never omitted."),
 "C08": dict(category="other",
   text="Deductive part (string level, cvc5/z3): line(s) == rstrip(s) ++ line ending and a break-free statement gives a body terminated exactly once; "
        "command() == command [space parameters] [space one confined comment]; parameters() == axis words first in X,Y,Z order (None omitted) then the "
        "other keys, '<label><number>' separated by single spaces; number(): 0 -> '0', non-finite -> ValueError, otherwise exactly one call of "
        "np.format_float_positional with precision=decimal_places, unique=True, fractional=True, sign=False, trim='-' (call-argument obligation); "
        "GCodeCore.write hands utf8(line) to every writer. The NUMERIC clause (plain signed decimal within half a unit of the last place) is numpy's "
        "and is only checked on a bounded grid — hence category 'other', not 'proof'.",
   note="Bounded: grid of doubles (subnormals, ±0, ties at each precision 0..12, magnitudes to 1e15, numpy scalars, seeded random values) x 13 precisions with exact "
        "rational arithmetic; tolerance = half a unit + distance between the double and its shortest repr (numpy rounds the repr). The end-to-end text<->block "
        "bridge is a bounded differential with the independent lexer (specs/lexer.py). A-str, A-kwargs (non-axis keyword values are numbers: F=None would be "
        "written as 'FNone' — observation, outside the statement's quantifier).", design_ref="DESIGN.md §4 C08"),
 "C09": dict(category="proof",
   text="For each comment style (the 7 bracketed styles, ';', and custom symbols) DefaultFormatter.comment(text) is proved, for ALL strings text, to "
        "start with the opening symbol, to contain no line break, and (bracketed styles) to contain the closing symbol only at its very end — which is "
        "what an independent comment lexer needs to remove exactly the comment; command() is proved to place the same words, one space and one such "
        "comment; every builder entry point that accepts text reaches the output only through comment()/command() (formatter contracts at call sites).",
   note="Assumed string-library contracts: ' '.join(text.splitlines()) contains no line break; str.replace(a, b) leaves no occurrence of a (b not containing a). "
        "Both, and the text<->block bridge, are exercised by a bounded end-to-end differential (hostile texts x 10 styles x 2 line endings x 11 entry points, "
        "independent lexer). Custom comment symbols containing '{}' are outside the enumeration."),
 "C10": dict(category="proof",
   text="Each shape's curve closure (arc_function, helix_function) is extracted from the real method and verified POINTWISE for a symbolic θ ∈ [0,1] with the "
        "captured variables constrained by the symbolic run of the enclosing method: arcs/circles — every vertex on the circle of the start radius about the "
        "given centre, Z linear, f(0) = current position, f(1) = target within the np.isclose tolerance of the radius check, sweep in [−2π,0) (CW) / (0,2π] (CCW), "
        "circle = full turn; helix/spiral/thread — radius linear in θ, total sweep = enforced base sweep + (turns−1) whole turns, exact end point, thread centre "
        "equidistant (constant radius), spiral starts on its centre, thread turns = max(1,⌊|Δz|/pitch⌋); Direction.enforce; parametric() samples θ = k/n incl. 1, "
        "filters, and traces every surviving vertex through to_distance_mode()+move(); _filter_segments never drops the last sample; one traced segment puts the "
        "builder exactly on its vertex in both distance modes.",
   note="The shapes are verified against the callee contract of GCodeCore.to_absolute (proved against its body by its own unit). A-pi, A-real; trigonometry only through named lemma instances T1–T6 (lemmas/Trig.lean); numpy elementwise = pointwise; np.linspace/np.diff/norm/mask indexing assumed. "
        "arc_radius: centre at distance |radius| from both ends and minor/major side by the sign of the radius are discharged through separately proved field-identity lemmas. "
        "BOUNDED (not proof): spline clauses (scipy CubicSpline), polyline for list length 3, and an end-to-end run of all 8 shapes on the real builder."),
 "C11": dict(category="proof",
   text="The absolute target every shape works from is computed by to_absolute() in either mode and the curve closures depend only on it (same obligations proved from an "
        "arbitrary distance mode, no case on the mode survives in the proved vertex functions); one interpolated segment move(to_distance_mode(P)) is proved to land exactly "
        "on the absolute vertex P in both modes; move/rapid/move_absolute/rapid_absolute and the absolute_mode()/relative_mode() managers are proved to reach the requested "
        "absolute target and to restore the mode; circle() is accepted in both modes.",
   note="Identity transform; A-real (relative mode accumulates output rounding per segment — the bounded end-to-end comparison uses a tolerance linear in the number of segments). "
        "Spline in both modes: bounded only."),
 "C12": dict(category="other",
   text="Deductive: the loop of _filter_segments (loop contract with a ghost accumulator) keeps a vertex exactly when the chord length accumulated since the last kept vertex "
        "exceeds 0.9·resolution — kept ⇒ 0.9·res < s ≤ 0.9·res + dᵢ, dropped ⇒ s ≤ 0.9·res — examines distances[:-1] only and never drops the last sample; parametric() takes "
        "n = max(2, ⌊10·length/resolution⌋) samples; arc() hands parametric() the exact constant-speed length hypot(radius·sweep, height); set_length_units rescales the "
        "resolution to the same length in pixels; arcs/circles are constant speed — |f(θ1) − f(θ2)| <= |θ1 − θ2|·length (chord <= arc, Lean lemma chord_le_arc) — and the "
        "arithmetic of these three facts gives the UPPER bound of the statement: for a path at least one resolution long no emitted segment exceeds 1.0112·resolution. "
        "NOT decided deductively: the LOWER bound (interior segments at least about 0.9·resolution, which needs a curvature argument) and 'halving the resolution never "
        "yields fewer segments' — bounded end-to-end check only, hence category 'other'.",
   note="numpy array semantics (diff, norm, boolean mask, vstack) assumed; bounded stand-in: seeded random constant-speed shapes on the real builder, segment lengths within "
        "[0.85, 1.05]·resolution, halving check for all 8 shapes."),
 "C13": dict(category="proof",
   text="save_state/restore_state (stack and named forms, empty-stack and missing-name cases), delete_state: exact effect on the abstract view "
        "(current, stack, named map) incl. frames, with heap SEPARATION (current, every stack entry and every named entry are distinct objects "
        "sharing no array) as an invariant — which is what makes a named state an immutable snapshot; reverse(apply(p)) == p from "
        "_inverse·_matrix == I; rotations and scalings are proved to fix the pivot (T(p)·K·T(-p)·p == p for K without translation part).",
   note=COMMON + "A-numpy, copy.deepcopy (fresh objects, equal contents, nothing shared), linalg.inv assumed. Names are opaque keys (two representative "
        "names). Stack = arbitrary prefix + visible top (the operations only touch the top). Lemma Mat4.mulVec_assoc is checked as a polynomial identity by z3."),
 "C14": dict(category="proof",
   text="GCodeCore.write is proved to make exactly one pass over the list registered at that moment, handing every writer the same bytes "
        "utf8(rstrip(statement) ++ line ending) (loop contract: the loop body is the single writer.write call); add_writer/remove_writer are "
        "proved against a sequence model with the duplicate-free invariant (order of the others preserved); teardown disconnects every "
        "registered writer with the wait flag and empties the list; flush reaches every writer; a writer loop whose body does more than the one call must leave the list it iterates over unchanged (frame obligation); FileWriter.write/flush/disconnect are proved "
        "against an assumed file-object contract for path, text-stream and binary-stream outputs (append byte for byte, publish on "
        "flush/close, caller's streams left open).",
   note="A-writers (registered writers do not raise / do not touch the builder), A-str, file-object and Path.open('wb+') contracts assumed and exercised by a BOUNDED "
        "stand-in on the real OS (random histories over real files/streams; not proof). List lemmas nodup_snoc/nodup_middle are proved in lemmas/ListLemmas.lean. "
        "Known finding KF-C14-path-reconnect-truncates (reopening a path truncates) is carved out by its region."),
 "C15": dict(category="other",
   text="Sequential safety part only. Proved per call: _checksum is reduce(xor, map(ord, s)); _send(cmd, k, True) on a serial device transmits exactly "
        "'N<k> <cmd>*<xor of \"N<k> <cmd>\">' + newline and stores that frame under k (M110 frames are not stored); _send(frame, k, False) retransmits a stored frame byte for "
        "byte; _reset_line_numbers sets lineno to 0 and transmits 'N-1 M110 N-1*cs'; one step of _sendnext transmits at most one line — with 0 <= resendfrom < lineno the STORED "
        "frame of line resendfrom (resendfrom advances by one, numbering and job position do not move), otherwise the comment-stripped next job line numbered with lineno, after "
        "which lineno and the job index advance by exactly one (comment-only / host-command lines consume no number; lineno never skips). NOT decided: everything quantified over "
        "thread interleavings and firmware latency, and the liveness clause 'the firmware ends up accepting every line'.",
   note="A-atomic (fields shared with the read thread are stable within one call except across the busy-wait, which havocs them), A-str, functools.reduce/map/ord, regex comment "
        "stripping and str(int) as uninterpreted functions, no extra event handlers registered. The history step 'numbering-faithful source + accept-only-expected-N firmware "
        "=> the accepted log is a prefix of the job, for ANY order, repetition and corruption pattern of transmissions' is proved in lemmas/Proto.lean (accepted_is_prefix); "
        "that the two threads keep the source numbering-faithful under every interleaving is NOT proved.", technique="contract-based deductive verification (per-call, sequential); schedules not decided"),
 "C16": dict(category="other",
   text="Sequential part only. Proved per call: PrintrunWriter.write performs exactly [ack.clear, device.send(strip(decode(statement))) once, ack.wait] and then raises (and clears) "
        "a stored DeviceError; nothing is sent after a shutdown request; _abort_on_device_error raises-iff; _wait_for_pending_operations returns only when nothing is pending "
        "(else raises); disconnect(wait=True) waits before tearing down and tears down on every path; SerialWriter/SocketWriter hand the same bytes to the printrun writer once; "
        "printcore.send enqueues the command exactly once, unmodified; the reply handler acknowledges ok..., turns error|alarm|!!... into a DeviceError + acknowledgement, and "
        "does neither for other lines. NOT decided: that the acknowledgement observed belongs to that very statement under arbitrary latency / unsolicited replies / connection loss.",
   note="A-atomic, threading.Event / queue.Queue as environment, str.strip/lower as uninterpreted functions. Observation (not a C16 violation): SerialWriter.disconnect(wait) ignores "
        "its argument and always waits.", technique="contract-based deductive verification (per-call, sequential); schedules not decided"),
 "C17": dict(category="proof",
   text="Device._readline_buf and Device._readline_socket (loop contract for its `while True`): with bytes as sequences and the socket file as an "
        "assumed contract (read(n) returns None | b'' | 1..n bytes appended to the ghost stream), every call is proved to satisfy the conservation "
        "equation  cat(buffer) ++ received == result ++ cat(buffer'), every non-empty result is exactly one line (newline-free text + one newline) "
        "or, after the peer closed, the unterminated tail; READ_EMPTY is returned only when no complete line is buffered and the peer has not "
        "closed; READ_EOF only with nothing pending; the buffer invariant (only the last chunk may contain a newline) is preserved. Composed over "
        "calls this is 'the received stream cut after each newline, nothing lost, duplicated or reordered' for every fragmentation.",
   note="A-str (bytes are z3 strings over code units), socket/selector contracts assumed, the chunk list is represented by (join of all chunks but the last, last chunk) "
        "which is all the code observes; first-occurrence facts of bytes.find are added as lemma instances (true of str.indexof). Termination/blocking is not claimed. "
        "Discharged by cvc5 --strings-exp where z3's sequence solver returns unknown. A violated clause is replayed natively: the real method is run on a Device "
        "holding the model's buffer with a scripted socket/selector, and conservation, line shape, READ_EMPTY/READ_EOF conditions and the buffer invariant are evaluated on the real result."),
 "C18": dict(category="proof",
   text="_parse_message: loop contract over the token sequence, stated for one arbitrary letter κ: after the loop κ reads the value of its FIRST "
        "occurrence in the report (single-letter fields, Grbl FS -> F,S, MPos/WPos/PRB -> X,Y,Z,A,B,C in order) and keeps its earlier reading if the "
        "report does not mention it; _update_param first-occurrence rule; _on_device_message parses a report with or without a leading ok, and "
        "does not parse error replies.",
   note="Tokenisation by the regular expression (VALUE_PATTERN.findall) is an ASSUMED contract, backed only by a bounded differential against an independent "
        "generator of Marlin/Grbl reports (3 000 quick / 100 000 thorough lines). float()/split()/isalnum()/strip()/lower() are uninterpreted functions; report "
        "keys are upper-case (A-upper)."),
 "C19": dict(category="proof",
   text="gscrib's own part of the heightmaps is proved: RasterHeightMap.get_depth_at returns exactly 0.0 outside [0,width)x[0,height) and scale x interpolator(row = y, "
        "column = x) inside (orientation as a call-argument obligation), SparseHeightMap.get_depth_at is scale x interpolator(x, y); SparseHeightMap wires "
        "LinearNDInterpolator(zip(col 0, col 1), col 2, fill_value=0.0); set_scale/set_tolerance guards with frames; the tolerance filter loop (both copies) under a loop "
        "contract: output begins with the first and ends with the last sample, and a sample is dropped exactly when its height differs from the previously KEPT one by "
        "less than the tolerance. sample_path is _filter_points(_interpolate_line(line), the map's tolerance) and rejects a line that is not 4 numbers; _interpolate_line "
        "(both classes, generic sample index) gives every sample row its own coordinates and get_depth_at at them, with the samples taken from linspace(x1,x2,k+1)/"
        "linspace(y1,y2,k+1), k >= 1 (sparse) or draw.line(round(x1),round(y1),round(x2),round(y2)) (raster); RasterHeightMap.from_path reads with "
        "IMREAD_GRAYSCALE|IMREAD_ANYDEPTH, _to_height_map divides by the full scale of the pixel type (65535 / 255), _create_interpolator puts pixel (row, column) "
        "at spline coordinates (row, column); constructors start with scale 1 and a positive tolerance; FlatHeightMap is zero everywhere and samples the two line ends.",
   note="The interpolants themselves (scipy RectBivariateSpline / LinearNDInterpolator exact at samples, inside [min, max] in the hull, 0 outside; skimage.draw.line and "
        "np.linspace end points) are ASSUMED contracts, exercised only by a bounded stand-in on random images / point sets with the real libraries. A-real."),
 "C20": dict(category="proof",
   text="Loop contract for the hook loop of _prepare_move with an arbitrary number >= 1 of arbitrary hooks: each hook call receives "
        "(resolve(position), true absolute target, params, state) in either distance mode (move and move_absolute); the parameters returned "
        "by the last hook are proved to be exactly the non-axis words emitted and the values remembered; rapid moves call no hook. The bundled "
        "extrusion hook is proved to set E = (nozzle x layer / (π(d/2)²)) x XY length, plus the remembered E in absolute extrusion mode.",
   note=COMMON + BRIDGE + "Python's for-statement provides 'once per registered hook, in order' (the loop contract checks the body is the single call). "
        "Hooks are assumed not to mutate the builder. math.hypot assumed (defining equation). Identity transform (with a transform the code passes the "
        "transformed target with the untransformed origin: observation, outside C20's quantifier)."),
}

NOT_APPLICABLE = {
 
 
 
 
 
 
 
 
 
 
 
 
 
 
}

NOTES = ("All checks are generated from /repo's working tree on every run (no cache). exit 0 held, 1 violation, 2 undecided, 3 checker defect. "
         "Known findings: known_findings.json. Fix commits in /repo are listed there under 'fixed'.")
