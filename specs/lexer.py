"""Independent reference G-code lexer (the text <-> block bridge of DESIGN §3.1).  ~40 lines, written from the RS-274 /
Marlin line grammar, not from gscrib's formatter.  Used by the replay harness and by the bounded bridge check."""
import re

CLOSERS = {"(": ")", "[": "]", "{": "}", "<": ">", '"': '"', "'": "'", "/*": "*/"}
WORD = re.compile(r"([A-Za-z]+)([-+]?(?:\d+\.?\d*|\.\d+))$")


def strip_comment(line, style=";"):
    """executable part of one line under the configured comment style"""
    if style in CLOSERS:
        out, i, close = [], 0, CLOSERS[style]
        while i < len(line):
            if line.startswith(style, i):
                j = line.find(close, i + len(style))
                if j < 0: break                      # unterminated comment swallows the rest of the line
                i = j + len(close)
            else:
                out.append(line[i]); i += 1
        return "".join(out)
    k = line.find(style)
    return line if k < 0 else line[:k]


def lex_line(line, style=";"):
    """-> {'cmds': [str], 'words': {LETTER: float}, 'junk': [str]}  for one line without its line ending"""
    body = strip_comment(line, style)
    cmds, words, junk = [], {}, []
    for tok in body.split():
        m = WORD.match(tok)
        if not m: junk.append(tok); continue
        letter, val = m.group(1).upper(), m.group(2)
        if letter in ("G", "M"):
            cmds.append(letter + val)
        else:
            words[letter] = float(val)
    return {"cmds": cmds, "words": words, "junk": junk}


def split_lines(data, eol):
    """bytes/str written by the builder -> list of line bodies; raises if the stream is not a sequence of eol-terminated lines"""
    text = data.decode("utf-8") if isinstance(data, bytes) else data
    if text == "": return []
    if not text.endswith(eol): raise ValueError("output does not end with the configured line ending")
    return text[:-len(eol)].split(eol)
