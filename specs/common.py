"""Shared specification layer: external/assumed contracts installed into every executor, symbolic object builders.

Contracts used AT CALL SITES (assumed there, verified for the callee in its own unit where it is repository code):
  DefaultFormatter.command/parameters/comment/number/line  -> abstract statement fragments (verified at string level: C08/C09)
  GCodeCore.write                                         -> appends one ("emit", stmt) event to the ghost log (verified: C14)
  CoordinateTransformer.apply_transform                   -> affine map with symbolic (A, b)           (verified: C04)
  gcode_table.get_entry                                   -> ground facts read from gcode_mappings.py by AST
"""
import ast
import z3
from pyvc.values import *
from pyvc.state import State

AXES = ("X", "Y", "Z")


# ---------------------------------------------------------------------------------------------- formatter (abstract level)
def _fmt_raise_cond(x, d, st):
    """ValueError condition of DefaultFormatter.parameters(d): some value that is formatted as a number is non-finite.
    Axis words are formatted only if they are Numbers; every other key is always formatted (numbers through number())."""
    conds = []
    for k, p in d.present.items():
        v = d.vals[k]
        o = as_opt(v)
        if isinstance(o.inner, VNum):
            conds.append(AND(p, NOT(o.none), NOT(o.inner.finite)))
    return OR(*conds)


def words_of(d):
    """the address words parameters(d) writes: [(letter, guard, value)] — axis letters only when not None"""
    out = []
    if d is None: return out
    for k, p in d.present.items():
        v = d.vals[k]; o = as_opt(v)
        ku = k.upper()
        if ku in AXES:
            if o.inner is None: continue
            out.append((ku, simp(AND(p, NOT(o.none))), o.inner))
        else:
            out.append((ku, p, v))
    return out


def word(stmt, letter):
    """(present, value as VOpt) of an address word of an abstract statement; numeric words only"""
    pres, val = F, None
    for l, g, v in words_of(stmt.params):
        if l == letter:
            pres = g; val = v
    return pres, val


def h_fmt_parameters(x, recv, args, kwargs, st):
    d = x.dict_of(st, args[0] if args else kwargs["params"])
    dd = VDict({}, {}, True)
    for k in d.present: x.dict_set(dd, k, d.vals[k], d.present[k])
    x.raise_if(st, _fmt_raise_cond(x, dd, st), "ValueError")
    return VStmt([], dd, None, F)


def nonblank(x, v, st):
    """len(comment.strip()) > 0"""
    if isinstance(v, VStr):
        if v.py is not None: return z3.BoolVal(len(v.py.strip()) > 0)
        f = z3.Function("nonblank", z3.StringSort(), z3.BoolSort())
        return f(v.term)
    raise Unsupported("comment type")


def h_fmt_command(x, recv, args, kwargs, st):
    a = list(args) + [None] * (3 - len(args))
    cmd = a[0]
    params = a[1] if a[1] is not None else kwargs.get("params", NONE)
    comment = a[2] if a[2] is not None else kwargs.get("comment", NONE)
    co = as_opt(comment)
    has_c = F
    if co.inner is not None:
        has_c = simp(AND(NOT(co.none), nonblank(x, co.inner, st)))
    po = as_opt(params)
    dd = VDict({}, {}, True)
    if po.inner is not None:
        d = x.dict_of(st, po.inner)
        for k in d.present: x.dict_set(dd, k, d.vals[k], simp(AND(NOT(po.none), d.present[k])))
        x.raise_if(st, _fmt_raise_cond(x, dd, st), "ValueError")
    return VStmt([cmd], dd, co.inner, has_c)


def h_fmt_comment(x, recv, args, kwargs, st):
    return VStmt([], VDict({}, {}, True), args[0], T)


def h_fmt_number(x, recv, args, kwargs, st):
    v = x.as_num(st, args[0])
    x.raise_if(st, NOT(v.finite), "ValueError")
    r = VStr(None, fresh("numtxt", z3.StringSort())); r.numsrc = v
    return r


def ext_join_stmt(x, parts, st, node):
    cmds, params, comment, has_c = [], VDict({}, {}, True), None, F
    pending_letter = None
    for p in parts:
        if isinstance(p, VStr) and p.py is not None:
            s = p.py.strip()
            if s == "": continue
            if len(s) == 1 and s.isalpha(): pending_letter = s.upper(); continue
            raise Unsupported(f"literal text {p.py!r} in a hand-built statement @ {x.where(node)}")
        if isinstance(p, VStmt):
            cmds += p.cmds
            if p.params is not None:
                for k in p.params.present: x.dict_set(params, k, p.params.vals[k], p.params.present[k])
            if p.comment is not None: comment = p.comment
            has_c = OR(has_c, p.has_comment)
            continue
        src = getattr(p, "numsrc", None)
        if pending_letter and src is not None:
            x.dict_set(params, pending_letter, src, T); pending_letter = None; continue
        raise Unsupported(f"statement part {type(p).__name__} @ {x.where(node)}")
    return VStmt(cmds, params, comment, simp(has_c))


def ext_format_value(x, v, spec, st, node):
    if isinstance(v, VNum):
        r = VStr(None, fresh("fmtnum", z3.StringSort())); r.numsrc = v
        return r
    return VStr(None, fresh("fmt", z3.StringSort()))


def h_core_write(x, recv, args, kwargs, st):
    """assumed at call sites: GCodeCore.write(statement) delivers the statement (one event) and does not raise
    (writers are environment: A-writers). Verified for the function itself in the C14 units."""
    stmt = args[0]
    st.log.append((T, ("emit", stmt)))
    return NONE


# ---------------------------------------------------------------------------------------------- table, enums, misc
def h_get_entry(x, recv, args, kwargs, st):
    e = args[0]
    if not isinstance(e, VEnum): raise Unsupported("get_entry of non-enum")
    table = x.w.gcode_table()
    members = x.w.enum_members(e.cls)
    ins = [table.get((e.cls, m)) for m, _ in members]
    missing = [i for i, t in enumerate(ins) if t is None]
    x.raise_if(st, OR(*[e.idx == i for i in missing]), "KeyError")
    known = [(i, t) for i, t in enumerate(ins) if t is not None]
    if not known: return NONE
    it = z3.StringVal(known[-1][1][0]); de = z3.StringVal(known[-1][1][1])
    for i, t in reversed(known[:-1]):
        it = ITE(e.idx == i, z3.StringVal(t[0]), it); de = ITE(e.idx == i, z3.StringVal(t[1]), de)
    it, de = simp(it), simp(de)
    vi = VStr(it.as_string() if z3.is_string_value(it) else None, None if z3.is_string_value(it) else it)
    vd = VStr(de.as_string() if z3.is_string_value(de) else None, None if z3.is_string_value(de) else de)
    return st.alloc("GCodeEntry", {"enum": e, "instruction": vi, "description": vd})


def h_scale_factor(x, recv, args, kwargs, st):
    got = x.w.module_const(x.w.classes[recv.cls].module, "CONVERSIONS_FACTORS")
    d = x.const_eval(got[0], got[1])
    members = x.w.enum_members(recv.cls)
    res = d.vals[members[-1][1]]
    for i in range(len(members) - 2, -1, -1): res = merge(simp(recv.idx == i), d.vals[members[i][1]], res)
    return res


def h_apply_transform(x, recv, args, kwargs, st):
    """assumed: apply_transform(p) = A·resolve(p) + b with the transformer's symbolic affine view (verified: C04 units)"""
    p = args[0]
    if not isinstance(p, VPoint): raise Unsupported("apply_transform of non-point")
    obj = st.heap[recv.oid]
    A, b = obj["$A"], obj["$b"]
    cs = [x.as_num(st, c) for c in p.items()]
    out = []
    for i in range(3):
        acc = b[i]
        for j in range(3): acc = n_add(acc, n_mul(A[i][j], cs[j]))
        out.append(VOpt(F, VNum(acc.sp, acc.val, False)))
    return VPoint(*out)


def affine_fields(prefix="T", identity=False):
    if identity:
        A = [[num(1.0 if i == j else 0.0) for j in range(3)] for i in range(3)]; b = [num(0.0)] * 3
        return {"$A": A, "$b": b}, []
    A = [[VNum(z3.IntVal(0), fresh(f"{prefix}_a{i}{j}", z3.RealSort()), False) for j in range(3)] for i in range(3)]
    b = [VNum(z3.IntVal(0), fresh(f"{prefix}_b{i}", z3.RealSort()), False) for i in range(3)]
    return {"$A": A, "$b": b}, [c.val for r in A for c in r] + [c.val for c in b]


MATH = {"pi": 3.141592653589793}


def ext_isfinite(x, args, kwargs, st, n):
    return VBool(x.as_num(st, args[0], n).finite)


def ext_isnan(x, args, kwargs, st, n):
    return VBool(x.as_num(st, args[0], n).nan)


def ext_hypot(x, args, kwargs, st, n):
    """assumed: math.hypot(a, b) is the Euclidean norm: h >= 0 and h*h == a*a + b*b (finite arguments)"""
    if len(args) != 2:
        vs = [x.as_num(st, a_, n) for a_ in args]
        hn = z3.Function(f"hypot{len(args)}", *([z3.RealSort()] * (len(args) + 1)))
        x.ghost.setdefault("hypot", []).append(tuple(vs) + (hn(*[v.val for v in vs]),))
        return VNum(z3.IntVal(0), hn(*[v.val for v in vs]), False)
    a, b = x.as_num(st, args[0], n), x.as_num(st, args[1], n)
    h = fresh("hypot", z3.RealSort())
    x.assume.append(IMP(AND(a.finite, b.finite), AND(h >= 0, h * h == a.val * a.val + b.val * b.val)))
    sp = ITE(AND(a.finite, b.finite), z3.IntVal(0), ITE(OR(a.nan, b.nan), z3.IntVal(1), z3.IntVal(2)))
    x.ghost.setdefault("hypot", []).append((a, b, h))
    return VNum(simp(sp), h, False)


def ext_opaque_num(name):
    def h(x, args, kwargs, st, n):
        for a in args: x.as_num(st, a, n)
        v, _ = sym_num(name, finite=True)
        return v
    return h


def hooks_loop(x, node, st):
    """loop contract for `for hook in self._hooks: params = hook(origin, target, params, self.state)`  (GCodeBuilder._prepare_move)

    Hooks are arbitrary user callables (assumed not to touch the builder).  The loop is cut: the body is executed once for a
    generic iteration whose incoming params is either the caller's dict (first iteration) or an arbitrary dict (returned by
    an earlier hook); the hook call is recorded as a ghost event and returns an arbitrary ParamsDict.  After the loop
    `params` is that arbitrary dict.  Python's for-statement itself gives 'each element once, in order'; the handler
    checks that the body is the single call statement (no break/continue/return, no store to self._hooks)."""
    it = x.ev(node.iter, st)
    obj = st.heap[it.oid]
    if "$l" in obj:
        return x.unrolled_loop(node, x.iter_items(it, st, node), st)
    stmt0 = node.body[0] if len(node.body) == 1 else None
    call0 = stmt0.value if isinstance(stmt0, (ast.Assign, ast.Expr)) else None
    body_ok = (isinstance(call0, ast.Call) and isinstance(call0.func, ast.Name) and call0.func.id == node.target.id and not node.orelse)
    if not body_ok: raise Unsupported("hook loop body is not the single call statement the loop contract covers")
    if isinstance(stmt0, ast.Assign):
        tgt = stmt0.targets[0]
        if not isinstance(tgt, ast.Name): raise Unsupported("hook loop assigns to a non-variable")
        var = tgt.id
    else:
        # the hook's return value is dropped: the dict handed on is the one passed in (third positional argument)
        a3 = call0.args[2] if len(call0.args) > 2 else None
        if not isinstance(a3, ast.Name): raise Unsupported("hook call shape")
        var = a3.id
    first = fresh("hook_first_iteration", z3.BoolSort())
    incoming_ref, wf_in, _ = mk_params(st, "hookin")
    cur = x.dict_of(st, st.env[var])
    inc = st.heap[incoming_ref.oid]["$d"]
    merged = VDict({}, {}, True)
    for k in dict.fromkeys(list(cur.present) + list(inc.present)):
        pa, pb = cur.present.get(k, F), inc.present.get(k, F)
        va, vb = cur.vals.get(k), inc.vals.get(k)
        merged.present[k] = ITE(first, pa, pb)
        merged.vals[k] = va if vb is None else vb if va is None else merge(first, as_opt(va), as_opt(vb))
    st.heap[incoming_ref.oid]["$d"] = merged
    st.env[var] = incoming_ref
    out_ref, wf_out, _ = mk_params(st, "hookout")
    od = st.heap[out_ref.oid]["$d"]
    for k in od.vals:
        if k not in AXES: od.vals[k] = VOpt(F, od.vals[k].inner)        # A-kwargs: hook-supplied non-axis parameters are numbers
    x.assume.append(AND(wf_in, wf_out))
    def hook(x_, args, kwargs, st_, n_):
        st_.log.append((T, ("hook", list(args))))
        return out_ref
    st.env[node.target.id] = VFunc("hook", hook)
    x.block(node.body, st)
    x.ghost["hook_out"] = out_ref
    x.ghost["hook_in"] = incoming_ref


def install(x, ctx=None):
    x.ghost = {}
    x.loop_handlers[("GCodeBuilder._prepare_move", 1)] = hooks_loop
    # the same contract for a loop over the (symbolic) hook list wherever it lives, e.g. after the loop was moved into a helper method
    x.iter_handlers.append((lambda it, st: isinstance(it, VRef) and bool(st.heap.get(it.oid, {}).get("$sym")), hooks_loop))
    c = x.contracts
    c[("DefaultFormatter", "parameters")] = h_fmt_parameters
    c[("DefaultFormatter", "command")] = h_fmt_command
    c[("DefaultFormatter", "comment")] = h_fmt_comment
    c[("DefaultFormatter", "number")] = h_fmt_number
    c[("BaseFormatter", "parameters")] = h_fmt_parameters
    c[("BaseFormatter", "command")] = h_fmt_command
    c[("BaseFormatter", "comment")] = h_fmt_comment
    c[("GCodeCore", "write")] = h_core_write
    c[("GCodeTable", "get_entry")] = h_get_entry
    c[("LengthUnits", "@scale_factor")] = h_scale_factor
    c[("CoordinateTransformer", "apply_transform")] = h_apply_transform
    x.ext["join_stmt"] = ext_join_stmt
    x.ext["format_value"] = ext_format_value
    from specs import npmodel
    npmodel.install(x)
    x.ext_names["gcode_table"] = VRef("GCodeTable", -1)
    x.ext_names["math"] = VModule("math")
    x.ext["math.pi"] = num(MATH["pi"])
    x.ext["math.hypot"] = ext_hypot
    x.ext["math.isfinite"] = ext_isfinite
    x.ext["math.isnan"] = ext_isnan
    x.ext["math.log2"] = ext_opaque_num("log2")      # only feeds the zero-padding width of the T word (tool_change)
    x.ext["math.ceil"] = ext_opaque_num("ceil")
    x.ext["pow"] = ext_opaque_num("pow")
    if ctx is not None:
        ctx.trust("A-real: float arithmetic on finite values is exact real arithmetic (rounding, overflow not modelled)",
                  "A-types: @typechecked dropped; annotated parameter types are assumed (ill-typed calls raise TypeCheckError before the body)",
                  "A-log: logging calls have no effect on modelled state")


# ---------------------------------------------------------------------------------------------- symbolic objects
def sym_enum(cls, world, prefix=None, arg=False):
    """(VEnum, wf). arg=True: raw API argument — a member, a synonym, or a str that is not a valid value (idx == n)"""
    n = len(world.enum_members(cls))
    idx = fresh(prefix or cls.lower(), z3.IntSort())
    return VEnum(cls, idx, arg), AND(idx >= 0, idx <= n if arg else idx < n)


def bound_keys(world):
    node, mod = world.module_const("gscrib.geometry.bounds", "VALID_PROPERTIES")
    return [e.value for e in node.elts]


def mk_bounds(st, world, prefix="B"):
    """BoundManager with an arbitrary table: any subset of the valid properties, any numeric (min, max) pair, incl.
    NaN/inf bounds (set_bounds accepts NaN: `nan >= x` is false).  Axes bounds are fully known points (the builder
    resolves them)."""
    d = VDict({}, {}); wfs = []; reals = []
    for k in bound_keys(world):
        p = fresh(f"{prefix}_{k}_set", z3.BoolSort())
        if k == "axes":
            lo, w1 = known_point(f"{prefix}_axmin"); hi, w2 = known_point(f"{prefix}_axmax")
            wfs += [w1, w2]
            reals += [c.inner.val for c in lo.items()] + [c.inner.val for c in hi.items()]
        else:
            lo, w1 = sym_num(f"{prefix}_{k}_min"); hi, w2 = sym_num(f"{prefix}_{k}_max"); wfs += [w1, w2]
            reals += [lo.val, hi.val]
        d.present[k] = p; d.vals[k] = VTuple([lo, hi])
    dref = st.alloc("dict", {"$d": d})
    ref = st.alloc("BoundManager", {"_bounds": dref})
    return ref, AND(*wfs), reals


STATE_ENUMS = {
    "_current_spin_mode": "SpinMode", "_current_power_mode": "PowerMode", "_current_distance_mode": "DistanceMode",
    "_current_extrusion_mode": "ExtrusionMode", "_current_coolant_mode": "CoolantMode", "_current_feed_mode": "FeedMode",
    "_current_tool_swap_mode": "ToolSwapMode", "_current_halt_mode": "HaltMode", "_current_length_units": "LengthUnits",
    "_current_time_units": "TimeUnits", "_current_temperature_units": "TemperatureUnits", "_current_plane": "Plane",
    "_current_direction": "Direction",
}
STATE_NUMS = ["_current_tool_power", "_current_feed_rate", "_target_hotend_temperature", "_target_bed_temperature",
              "_target_chamber_temperature"]
PARAM_KEYS = ("X", "Y", "Z", "F", "S", "E", "K")     # K: a generic key standing for every key the code never names


def mk_params(st, prefix="P", keys=PARAM_KEYS):
    d = VDict({}, {}, True); wfs = []; reals = []
    for k in keys:
        o, wf = opt_num(f"{prefix}_{k}")
        d.present[k] = fresh(f"{prefix}_{k}_in", z3.BoolSort()); d.vals[k] = o; wfs.append(wf); reals.append(o.inner.val)
    return st.alloc("ParamsDict", {"$d": d}), AND(*wfs), reals


def mk_state(st, world, prefix="S", params_ref=None):
    """GState in an arbitrary slot valuation (every field symbolic, enums in range).  Returns (ref, wf, info)"""
    fields = {}; wfs = []; reals = []
    bref, wf, r = mk_bounds(st, world, prefix + "B"); wfs.append(wf); reals += r
    fields["_user_bounds"] = bref
    pt, wf = sym_point(prefix + "_axes", finite=True); wfs.append(wf); reals += [c.inner.val for c in pt.items()]
    fields["_current_axes"] = pt      # wf_pos: tracked coordinates are finite (a position is committed only after it was formatted)
    if params_ref is None:
        params_ref, wf, r = mk_params(st, prefix + "P"); wfs.append(wf); reals += r
    fields["_current_params"] = params_ref
    tn, wf = sym_num(prefix + "_toolno", isint=True, finite=True); fields["_current_tool_number"] = tn; reals.append(tn.val)
    wfs.append(z3.IsInt(tn.val))
    for f in STATE_NUMS:
        n, wf = sym_num(prefix + f); wfs.append(wf); fields[f] = n; reals.append(n.val)
    res, wf = sym_num(prefix + "_res", finite=True); wfs.append(res.val > 0); fields["_current_resolution"] = res; reals.append(res.val)
    for f, cls in STATE_ENUMS.items():
        e, wf = sym_enum(cls, world, prefix + f); wfs.append(wf); fields[f] = e
    for f in ("_is_coolant_active", "_is_tool_active"):
        fields[f] = VBool(fresh(prefix + f, z3.BoolSort()))
    ref = st.alloc("GState", fields)
    slots = state_slots(world)
    missing = set(slots) - set(fields)
    if missing: raise Unsupported(f"GState slots without a symbolic shape: {sorted(missing)} (spec must be extended)")
    return ref, AND(*wfs), {"params": params_ref, "bounds": bref, "reals": reals}


def state_slots(world):
    node = world.classes["GState"].consts.get("__slots__")
    return [e.value for e in node.elts]


def bounds_entry(st, bref, key):
    """(present, lo, hi) of a bound table entry in state st"""
    d = st.heap[st.heap[bref.oid]["_bounds"].oid]["$d"] if isinstance(st, State) else st[st[bref.oid]["_bounds"].oid]["$d"]
    t = d.vals[key]
    return d.present[key], t.items[0], t.items[1]


def in_range(v, lo, hi):
    """lo <= v <= hi with IEEE semantics (NaN anywhere -> false): written from the statement of C03, not from the code"""
    return AND(n_le(lo, v), n_le(v, hi))


def point_in_box(p, lo, hi):
    """Point.within_bounds as the statement reads: unknown coordinates are not constrained; NaN never passes"""
    cs = []
    for c, l, h in zip(p.items(), lo.items(), hi.items()):
        c, l, h = as_opt(c), as_opt(l), as_opt(h)
        if c.inner is None: continue
        inside = T
        if l.inner is not None and h.inner is not None:
            inside = OR(l.none, h.none, in_range(c.inner, l.inner, h.inner))
        cs.append(OR(c.none, inside))
    return AND(*cs)


def heap_get(heap, ref, *path):
    v = ref
    for p in path:
        v = heap[v.oid][p]
    return v


def unchanged_obj(h0, h1, ref, fields=None, skip=()):
    """every field of object `ref` has the same value in heaps h0 and h1 (nested dict/list objects by content)"""
    cs = []
    o0, o1 = h0[ref.oid], h1[ref.oid]
    for f in (fields or o0.keys()):
        if f in skip or f.startswith("$") and f not in ("$d", "$l"): continue
        a, b = o0[f], o1.get(f)
        if b is None: cs.append(F); continue
        if isinstance(a, VRef) and isinstance(b, VRef) and a.oid == b.oid and a.oid in h0 and (("$d" in h0[a.oid]) or ("$l" in h0[a.oid])):
            cs.append(unchanged_obj(h0, h1, a))
        elif isinstance(a, (list,)):
            continue
        else:
            cs.append(v_same(a, b))
    return AND(*cs)


# ---------------------------------------------------------------------------------------------- symbolic builder
def mk_kwargs(st, keys=("X", "Y", "Z", "F", "S", "E", "K"), comment=True, prefix="kw", lower=True):
    """**kwargs of a motion call: any subset of the keys, each an optional number (None allowed), plus comment=.
    Keys are given in the case the callers normally use (x=, y=, z= lower case; the code upper-cases all of them)."""
    d = VDict({}, {}); wfs = []; reals = []
    for k in keys:
        kk = k.lower() if (lower and k in AXES) else k
        o, wf = opt_num(f"{prefix}_{k}"); wfs.append(wf); reals.append(o.inner.val)
        if k not in AXES: o = VOpt(F, o.inner)      # A-kwargs: non-axis keyword parameters are numbers (x=None is allowed, F=None is not)
        d.present[kk] = fresh(f"{prefix}_{k}_given", z3.BoolSort()); d.vals[kk] = o
    if comment:
        d.present["comment"] = fresh(f"{prefix}_comment_given", z3.BoolSort())
        d.vals["comment"] = VOpt(fresh(f"{prefix}_comment_none", z3.BoolSort()), VStr(None, fresh(f"{prefix}_comment", z3.StringSort())))
    return st.alloc("dict", {"$d": d}), AND(*wfs), reals


def mk_builder(st, world, transform="identity", hooks=0, cls="GCodeBuilder", prefix="g", fresh_params=False):
    """GCodeBuilder in an arbitrary reachable-shaped state: every tracked field symbolic; core and state share the
    remembered-parameters dict (as they do after the first tracked move); distance modes of core and state agree
    (wf_core: both are only ever written together, by set_distance_mode)."""
    wfs, reals = [], []
    pref, wf, r = mk_params(st, prefix + "P"); wfs.append(wf); reals += r
    spref = pref
    if fresh_params:
        # the state of a freshly constructed builder: core and state hold two distinct, empty parameter dicts (they become one object at the first tracked move)
        d = st.heap[pref.oid]["$d"]
        for k in d.present: d.present[k] = F
        spref = st.alloc("ParamsDict", {"$d": VDict({k: F for k in d.present}, dict(d.vals), True)})
    sref, wf, info = mk_state(st, world, prefix + "S", params_ref=spref); wfs.append(wf); reals += info["reals"]
    fmt = st.alloc("DefaultFormatter", {})
    tf, treals = affine_fields(prefix + "T", identity=(transform == "identity")); reals += treals
    tr = st.alloc("CoordinateTransformer", tf)
    if transform != "identity":
        a = [[c.val for c in r] for r in tf["$A"]]
        det = (a[0][0] * (a[1][1] * a[2][2] - a[1][2] * a[2][1]) - a[0][1] * (a[1][0] * a[2][2] - a[1][2] * a[2][0])
               + a[0][2] * (a[1][0] * a[2][1] - a[1][1] * a[2][0]))
        wfs.append(det != 0)          # C04 quantifies over invertible affine transforms
    axes, wf = sym_point(prefix + "_axes", finite=True); wfs.append(wf); reals += [c.inner.val for c in axes.items()]
    dm, wf = sym_enum("DistanceMode", world, prefix + "_dm"); wfs.append(wf)
    di, wf = sym_enum("Direction", world, prefix + "_dir"); wfs.append(wf)
    writers = st.alloc("list", {"$len": VNum(z3.IntVal(0), fresh(prefix + "_nwriters", z3.RealSort()), True)})
    hk = st.alloc("list", {"$l": VList([])}) if hooks == 0 else st.alloc("list", {"$len": VNum(z3.IntVal(0), z3.ToReal(hooks), True), "$sym": True})
    fields = {"_formatter": fmt, "_transformer": tr, "_current_axes": axes, "_current_params": pref, "_distance_mode": dm,
              "_direction": di, "_writers": writers, "_state": sref, "_hooks": hk, "_logger": NONE}
    g = st.alloc(cls, fields)
    tracer = st.alloc("PathTracer", {"_g": g})
    st.heap[g.oid]["_tracer"] = tracer
    wfs.append(st.heap[sref.oid]["_current_distance_mode"].idx == dm.idx)
    info = dict(info); info.update(state=sref, params=pref, transformer=tr, formatter=fmt, reals=reals, tracer=tracer)
    return g, AND(*wfs), info


def wf_tool(world, heap, sref):
    """tool flags are consistent: inactive <=> both start modes OFF; active => exactly one of them is set"""
    o = heap[sref.oid]
    s_off = o["_current_spin_mode"].idx == world.enum_index("SpinMode", "OFF")
    p_off = o["_current_power_mode"].idx == world.enum_index("PowerMode", "OFF")
    a = o["_is_tool_active"].t
    c_off = o["_current_coolant_mode"].idx == world.enum_index("CoolantMode", "OFF")
    return AND(a == NOT(AND(s_off, p_off)), OR(s_off, p_off), o["_is_coolant_active"].t == NOT(c_off))


