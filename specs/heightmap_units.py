"""Contracts on heightmaps/raster_heightmap.py and heightmaps/sparse_heightmap.py (C19).

scipy interpolants, skimage.draw.line and numpy are external: the deductive obligations are about what gscrib itself does —
range test and (row, column) orientation, scaling, argument wiring of the interpolators, and the tolerance filter loop.
The interpolants' own behaviour (exact at samples, inside [min, max] in the hull, 0 outside) is an assumed contract exercised
by the bounded stand-in specs/bounded.py:c19_maps."""
import ast
import z3
from pyvc.values import *
from pyvc.state import State
from pyvc.ctx import unit
from specs.common import *
from specs.dsl import *

R = z3.RealSort()
interp = z3.Function("interp", R, R, R)          # value the interpolator object returns for its two arguments, in call order


def mk_map(st, cls, x):
    sc, _ = sym_num("scale", finite=True); tol, _ = sym_num("tolerance", finite=True)
    ip = st.alloc("Interpolator", {})
    w, _ = sym_num("width", isint=True, finite=True); h, _ = sym_num("height", isint=True, finite=True)
    hm = st.alloc("HeightArray", {"$w": w, "$h": h})
    m = st.alloc(cls, {"_scale_z": sc, "_tolerance": tol, "_interpolator": ip, "_height_map": hm})
    calls = []
    def call_ip(x_, fv, args, kwargs, st_, n):
        a, b = x_.as_num(st_, args[0], n), x_.as_num(st_, args[1], n)
        calls.append((st_.pc, a, b))
        if cls == "RasterHeightMap":
            return st_.alloc("IpResult", {"$v": VNum(z3.IntVal(0), interp(a.val, b.val), False)})     # RectBivariateSpline returns a 2-D array: [0, 0] picks the value
        return VNum(z3.IntVal(0), interp(a.val, b.val), False)
    x.contracts[("Interpolator", "__call__")] = lambda x_, recv, args, kwargs, st_: call_ip(x_, recv, args, kwargs, st_, None)
    x.contracts[("HeightArray", "@shape")] = lambda x_, recv, a, k, st_: VTuple([st_.heap[recv.oid]["$h"], st_.heap[recv.oid]["$w"]])
    def ipres_get(x_, recv, args, kwargs, st_):
        return st_.heap[recv.oid]["$v"]
    x.contracts[("IpResult", "__getitem__")] = ipres_get
    return m, sc, tol, w, h, calls


@unit("RasterHeightMap.get_depth_at", ["C19"])
def u_raster_depth(ctx):
    st = State(T, {}, {}, []); x = ctx.executor()
    m, sc, tol, w, h, calls = mk_map(st, "RasterHeightMap", x)
    px, _ = sym_num("x", finite=True); py, _ = sym_num("y", finite=True)
    ctx.assume(w.val >= 4, h.val >= 4, z3.IsInt(w.val), z3.IsInt(h.val))
    orig_index = x.index_
    def index_(base, idx, st_, n):
        if isinstance(base, VRef) and base.cls == "IpResult":
            ok = isinstance(idx, VTuple) and [x.concrete(i) for i in idx.items] == [0, 0]
            if not ok: raise Unsupported("interpolator result indexed with something else than [0, 0]")
            return st_.heap[base.oid]["$v"]
        return orig_index(base, idx, st_, n)
    x.index_ = index_
    exits = ctx.run(x, "RasterHeightMap.get_depth_at", [m, px, py], {}, st)
    covers(ctx, exits); never_raises(ctx, exits)
    inside = AND(px.val >= 0, px.val < w.val, py.val >= 0, py.val < h.val)
    for e in exits:
        if e.kind != "return": continue
        r = e.payload
        ctx.check("outside [0, width) x [0, height) the depth is exactly 0.0", IMP(NOT(inside), AND(r.finite, r.val == 0)), e, None, "post")
        ctx.check("inside, the depth is scale x interpolator(row = y, column = x): x is the column, y is the row", IMP(inside, r.val == sc.val * interp(py.val, px.val)), e, None, "post")
        ctx.canary("canary: interpolator(x, y)", IMP(inside, r.val == sc.val * interp(px.val, py.val)), e)
    ctx.check("the interpolator is evaluated at most once per query", z3.BoolVal(len(calls) == 1), None, None, "post")
    ctx.trust("scipy RectBivariateSpline(rows, cols, z)(r, c)[0, 0] interpolates z exactly at integer (r, c) (assumed; bounded check)")


@unit("SparseHeightMap.get_depth_at", ["C19"])
def u_sparse_depth(ctx):
    st = State(T, {}, {}, []); x = ctx.executor()
    m, sc, tol, w, h, calls = mk_map(st, "SparseHeightMap", x)
    px, _ = sym_num("x", finite=True); py, _ = sym_num("y", finite=True)
    exits = ctx.run(x, "SparseHeightMap.get_depth_at", [m, px, py], {}, st)
    covers(ctx, exits); never_raises(ctx, exits)
    for e in exits:
        if e.kind != "return": continue
        ctx.check("depth is scale x interpolator(x, y)", e.payload.val == sc.val * interp(px.val, py.val), e, None, "post")
        ctx.canary("canary: unscaled", e.payload.val == interp(px.val, py.val), e)
    ctx.trust("scipy LinearNDInterpolator(points, values, fill_value=0.0): piecewise linear on the Delaunay triangulation (values inside [min, max] of the samples, exact at samples), "
              "0.0 outside the convex hull (assumed; bounded check)")


def _setter(cls, method, field, strict):
    @unit(f"{cls}.{method}", ["C19"])
    def u(ctx):
        st = State(T, {}, {}, []); x = ctx.executor()
        m, sc, tol, w, h, calls = mk_map(st, cls, x)
        v, wf = sym_num("v"); ctx.assume(wf)
        h0 = st.snap()
        exits = ctx.run(x, f"{cls}.{method}", [m, v], {}, st)
        covers(ctx, exits)
        raises_iff(ctx, exits, {"ValueError": n_le(v, num(0)) if strict else n_lt(v, num(0))})
        on_raise_unchanged(ctx, exits, h0, {"map": m})
        post(ctx, exits, "value recorded", lambda e: v_same(e.heap[m.oid][field], v))
        frame(ctx, exits, h0, m, {field}, name="map")
    return u


for _c in ("RasterHeightMap", "SparseHeightMap"):
    _setter(_c, "set_scale", "_scale_z", True)
    _setter(_c, "set_tolerance", "_tolerance", False)


# ---------------------------------------------------------------------------------------------- the tolerance filter (both classes carry the same loop)
def _filter_unit(cls):
    @unit(f"{cls}._filter_points", ["C19"])
    def u(ctx):
        st = State(T, {}, {}, []); x = ctx.executor()
        m, sc, tolf, w, h, calls = mk_map(st, cls, x)
        zf = z3.Function("zrow", z3.IntSort(), R)            # height of the i-th sample
        n = fresh("n_samples", z3.IntSort())
        tol, _ = sym_num("tol", finite=True)
        ctx.assume(n >= 1, tol.val >= 0)
        def row(st_, i): return st_.alloc("Row", {"$i": i, "$z": VNum(z3.IntVal(0), zf(i), False)})
        pts = st.alloc("Samples", {"$n": n})
        def samples_get(x_, recv, args, kwargs, st_):
            i = x_.concrete(args[0])
            if i == 0: return row(st_, z3.IntVal(0))
            if i == -1: return row(st_, n - 1)
            raise Unsupported("sample index")
        x.contracts[("Samples", "__getitem__")] = samples_get
        def row_get(x_, recv, args, kwargs, st_):
            if x_.concrete(args[0]) != 2: raise Unsupported("row component other than the height [2]")
            return st_.heap[recv.oid]["$z"]
        x.contracts[("Row", "__getitem__")] = row_get
        record = []
        # `lines`: python list; after the cut loop it is [first, ..., L] with ghost L = last appended row
        def sym_append(x_, recv, args, kwargs, st_):
            o = st_.heap[recv.oid]; o["$last_i"] = st_.heap[args[0].oid]["$i"]; o["$appended"] = VBool(T); return NONE
        x.contracts[("SymList", "append")] = sym_append
        def sl_get(x_, recv, args, kwargs, st_):
            if x_.concrete(args[0]) != -1: raise Unsupported("lines index")
            return row(st_, st_.heap[recv.oid]["$last_i"])
        x.contracts[("SymList", "__getitem__")] = sl_get
        def array_equal(x_, args, kwargs, st_, n_):
            a, b = args
            return VBool(st_.heap[a.oid]["$i"] == st_.heap[b.oid]["$i"])     # assumed: rows compare equal iff they are the same sample (distinct samples differ in x or y)
        x.ext["numpy.array_equal"] = array_equal
        x.ext["numpy.array"] = lambda x_, args, kwargs, st_, n_: args[0]
        x.ext_names["numpy"] = VModule("numpy")
        def loop(x_, node, st_):
            it = x_.ev(node.iter, st_)
            record.append(("the loop runs over all samples, in order", st_.pc, z3.BoolVal(isinstance(it, VRef) and it.oid == pts.oid)))
            lines0 = st_.env["lines"]
            items0 = st_.heap[lines0.oid]["$l"].items
            record.append(("the output starts with the first sample", st_.pc, z3.BoolVal(len(items0) == 1 and isinstance(items0[0], VRef) and items0[0].cls == "Row") if True else T))
            first = items0[0]
            # invariant: last_z is the height of the last row appended to lines
            lastrow = fresh("last_kept", z3.IntSort())
            sl = st_.alloc("SymList", {"$first": first, "$last_i": lastrow, "$appended": VBool(F)})
            st_.env["lines"] = sl
            lz0 = x_.as_num(st_, st_.env["last_z"]).val
            record.append(("loop invariant on entry: last_z is the height of the last kept sample (the first one)", st_.pc, lz0 == zf(z3.IntVal(0))))
            i = fresh("i", z3.IntSort())
            s2 = st_.fork()
            s2.env["last_z"] = VNum(z3.IntVal(0), zf(lastrow), False)
            s2.pc = simp(AND(st_.pc, i >= 0, i < n, lastrow >= 0, lastrow < n))
            x_.assign(node.target, row(s2, i), s2)
            x_.block(node.body, s2)
            newlast_i = s2.heap[s2.env["lines"].oid]["$last_i"]
            kept = s2.heap[s2.env["lines"].oid]["$appended"].t
            record.append(("an appended sample is the current one; otherwise the list is untouched", s2.pc, ITE(kept, newlast_i == i, newlast_i == lastrow)))
            lz1 = x_.as_num(s2, s2.env["last_z"]).val
            d = zf(i) - zf(lastrow); absd = ITE(d < 0, -d, d)
            record.append(("C19 every dropped sample differs in height from the previously kept one by less than the tolerance; a kept one by at least the tolerance",
                           s2.pc, AND(IMP(NOT(kept), absd < tol.val), IMP(kept, absd >= tol.val))))
            record.append(("loop invariant preserved: last_z is the height of the last kept sample", s2.pc,
                           lz1 == zf(newlast_i)))
            # after the loop: some last kept row
            endrow = fresh("last_kept_end", z3.IntSort())
            st_.heap[sl.oid]["$last_i"] = endrow
            st_.env["last_z"] = VNum(z3.IntVal(0), zf(endrow), False)
            st_.pc = simp(AND(st_.pc, endrow >= 0, endrow < n))
        x.loop_handlers[(f"{cls}._filter_points", 1)] = loop
        exits = ctx.run(x, f"{cls}._filter_points", [m, pts, tol], {}, st)
        for name, pc, f in record: ctx.check(name, IMP(pc, f), None, None, "inv")
        covers(ctx, exits); never_raises(ctx, exits)
        for e in exits:
            if e.kind != "return": continue
            r = e.payload
            o = e.heap[r.oid]
            ctx.check("the output ends with the last sample of the line (appended if it was filtered out)", o["$last_i"] == n - 1, e, None, "post")
            ctx.check("the output begins with the first sample", e.heap[o["$first"].oid]["$i"] == 0, e, None, "post")
        ctx.trust("numpy.array_equal(row_a, row_b) is true exactly for the same sample; the for-statement visits the samples in order, appends keep that order (subsequence)")
    return u


_filter_unit("RasterHeightMap"); _filter_unit("SparseHeightMap")


@unit("SparseHeightMap._create_interpolator", ["C19"])
def u_sparse_create(ctx):
    st = State(T, {}, {}, []); x = ctx.executor()
    m, sc, tol, w, h, calls = mk_map(st, "SparseHeightMap", x)
    data = st.alloc("DataArray", {})
    cols = {}
    def data_get(x_, recv, args, kwargs, st_): raise Unsupported("unexpected")
    orig_sub = x.e_Subscript
    def e_sub(node, st_):
        base = x.ev(node.value, st_)
        if isinstance(base, VRef) and base.cls == "DataArray":
            s = node.slice
            ok = isinstance(s, ast.Tuple) and len(s.elts) == 2 and isinstance(s.elts[0], ast.Slice) and s.elts[0].lower is None and s.elts[0].upper is None and isinstance(s.elts[1], ast.Constant)
            if not ok: raise Unsupported("column selection shape")
            return st_.alloc("Column", {"$col": num(s.elts[1].value)})
        return orig_sub(node, st_)
    x.e_Subscript = e_sub
    made = []
    def lnd(x_, args, kwargs, st_, n):
        made.append((args, kwargs)); return st_.alloc("Interpolator", {})
    x.ext_names["LinearNDInterpolator"] = VFunc("LinearNDInterpolator", lnd)
    x.ext_names["numpy"] = VModule("numpy"); x.ext["numpy.nan"] = num(float("nan")); x.ext["numpy.inf"] = num(float("inf"))
    def zip_(x_, recv, args, kwargs, st_): return None
    orig_iter = x.iter_builtin
    def iter_builtin(name, args, st_, n):
        if name == "zip" and all(isinstance(a, VRef) and a.cls == "Column" for a in args):
            return st_.alloc("ZipCols", {"$cols": VTuple(list(args))})
        return orig_iter(name, args, st_, n)
    x.iter_builtin = iter_builtin
    orig_construct = x.construct
    def construct(name, args, kwargs, st_, n=None):
        if name == "list" and args and isinstance(args[0], VRef) and args[0].cls == "ZipCols": return args[0]
        return orig_construct(name, args, kwargs, st_, n)
    x.construct = construct
    exits = ctx.run(x, "SparseHeightMap._create_interpolator", [m, data], {}, st)
    never_raises(ctx, exits)
    ok = False
    if len(made) == 1:
        args, kw = made[0]
        try:
            pts, vals = args
            c = [x.concrete(st.heap[q.oid]["$col"]) if q.oid in st.heap else None for q in exits[-1].heap[pts.oid]["$cols"].items]
            c = [x.concrete(exits[-1].heap[q.oid]["$col"]) for q in exits[-1].heap[pts.oid]["$cols"].items]
            vcol = x.concrete(exits[-1].heap[vals.oid]["$col"])
            fill = x.concrete(kw.get("fill_value")) if "fill_value" in kw else None
            ok = (c == [0, 1] and vcol == 2 and fill == 0.0 and set(kw) == {"fill_value"})
        except Exception: ok = False
    ctx.check("call-argument obligation: LinearNDInterpolator(list(zip(column 0, column 1)), column 2, fill_value=0.0) — (x, y) points, z values, zero outside the data", z3.BoolVal(ok), None, None, "post")


# ---------------------------------------------------------------------------------------------- sampling a line: _interpolate_line and sample_path
depthf = z3.Function("depth_at", R, R, R)              # what get_depth_at(x, y) returns (its own contract: the get_depth_at units)
xs = z3.Function("sample_x", z3.IntSort(), R)          # coordinates of the i-th sample produced by numpy.linspace / skimage.draw.line
ys = z3.Function("sample_y", z3.IntSort(), R)


def _line_unit(cls):
    @unit(f"{cls}._interpolate_line", ["C19"])
    def u(ctx):
        st = State(T, {}, {}, []); x = ctx.executor()
        m, sc, tol, w, h, calls = mk_map(st, cls, x)
        ctx.assume(tol.val > 0)
        cs = [sym_num(nm, finite=True)[0] for nm in ("x1", "y1", "x2", "y2")]
        line = VTuple(list(cs))                          # an ndarray of shape (4,) of finite floats: unpacks and iterates like a 4-tuple
        i = fresh("i", z3.IntSort())                     # ONE generic sample index: the code treats all samples alike (comprehension / vectorised call)
        made = []                                        # calls that create the sample coordinates
        depth_calls = []
        def depth_def(a, b):
            """the postcondition of get_depth_at, PROVED by the `{cls}.get_depth_at` unit, instantiated at (a, b): it defines depth_at, so that code which
            computes the same depth without calling get_depth_at (a correct vectorisation) still meets the clause below"""
            if cls == "SparseHeightMap": return depthf(a, b) == sc.val * interp(a, b)
            inside = AND(a >= 0, a < w.val, b >= 0, b < h.val)
            return AND(IMP(inside, depthf(a, b) == sc.val * interp(b, a)), IMP(NOT(inside), depthf(a, b) == 0))
        def h_depth(x_, recv, args, kwargs, st_):
            a, b = x_.as_num(st_, args[0]), x_.as_num(st_, args[1]); depth_calls.append((st_.pc, a, b))
            x_.assume.append(depth_def(a.val, b.val))
            return VNum(z3.IntVal(0), depthf(a.val, b.val), False)
        ctx.assume(depth_def(xs(i), ys(i)))
        x.contracts[(cls, "get_depth_at")] = h_depth
        def samples(st_, axis, term): return st_.alloc("Samples1D", {"$axis": VStr(axis), "$g": VNum(z3.IntVal(0), term, False)})
        def linspace(x_, args, kwargs, st_, n):
            made.append(("linspace", [x_.as_num(st_, a, n) for a in args], dict(kwargs)))
            return samples(st_, "xy"[len([c for c in made if c[0] == "linspace"]) - 1], (xs if len([c for c in made if c[0] == "linspace"]) == 1 else ys)(i))
        def draw_line(x_, args, kwargs, st_, n):
            made.append(("draw.line", [x_.as_num(st_, a, n) for a in args], dict(kwargs)))
            return VTuple([samples(st_, "x", xs(i)), samples(st_, "y", ys(i))])
        x.ext["numpy.linspace"] = linspace; x.ext["draw.line"] = draw_line
        x.ext["numpy.hypot"] = ext_hypot
        x.ext_names["numpy"] = VModule("numpy"); x.ext_names["draw"] = VModule("draw")
        def np_array(x_, args, kwargs, st_, n): return args[0]
        x.ext["numpy.array"] = np_array
        def column_stack(x_, args, kwargs, st_, n):
            cols = x_.unpack(args[0], st_, n)
            if not all(isinstance(c, VRef) and c.cls == "Samples1D" for c in cols): raise Unsupported("column_stack of something else than sample arrays")
            return st_.alloc("list", {"$l": VList([VTuple([st_.heap[c.oid]["$g"] for c in cols])])})
        x.ext["numpy.column_stack"] = column_stack
        # the interpolator object applied to whole sample arrays works element by element (scipy: vectorised call)
        base_ip = x.contracts[("Interpolator", "__call__")]
        def ip_call(x_, recv, args, kwargs, st_):
            if all(isinstance(a, VRef) and a.cls == "Samples1D" for a in args):
                a, b = [st_.heap[q.oid]["$g"] for q in args]
                return samples(st_, "z", interp(a.val, b.val))
            return base_ip(x_, recv, args, kwargs, st_)
        x.contracts[("Interpolator", "__call__")] = ip_call
        orig_iter = x.iter_builtin
        def iter_builtin(name, args, st_, n):
            if name == "zip" and args and all(isinstance(a, VRef) and a.cls == "Samples1D" for a in args):
                return VList([VTuple([st_.heap[a.oid]["$g"] for a in args])])       # the generic element of the zipped sequence
            return orig_iter(name, args, st_, n)
        x.iter_builtin = iter_builtin
        # arithmetic between a sample array and a number / another sample array is element-wise (numpy broadcasting): done on the generic element
        orig_binop = x.binop
        def binop(op, a, b, st_, n=None):
            def is_s(v): return isinstance(v, VRef) and v.cls == "Samples1D"
            if is_s(a) or is_s(b):
                ga = st_.heap[a.oid]["$g"] if is_s(a) else a
                gb = st_.heap[b.oid]["$g"] if is_s(b) else b
                return samples(st_, "z", orig_binop(op, ga, gb, st_, n).val)
            return orig_binop(op, a, b, st_, n)
        x.binop = binop
        exits = ctx.run(x, f"{cls}._interpolate_line", [m, line], {}, st)
        covers(ctx, exits); never_raises(ctx, exits)
        x1, y1, x2, y2 = [c.val for c in cs]
        for e in exits:
            if e.kind != "return": continue
            r = e.payload
            rows = e.heap[r.oid]["$l"].items if isinstance(r, VRef) and "$l" in e.heap.get(r.oid, {}) else None
            ok = rows is not None and len(rows) == 1 and isinstance(rows[0], VTuple) and len(rows[0].items) == 3
            ctx.check("the result is one (x, y, z) row per sample", z3.BoolVal(bool(ok)), e, None, "post")
            if not ok: continue
            rx, ry, rz = [x.as_num(State(e.cond, {}, e.heap, []), c) for c in rows[0].items]
            ctx.check("C19 every row is (x_i, y_i, get_depth_at(x_i, y_i)): the sample's own coordinates with the map's own (scaled, zero-outside) depth at them",
                      AND(rx.val == xs(i), ry.val == ys(i), rz.val == depthf(xs(i), ys(i))), e, None, "post")
            ctx.canary("canary: heights come straight from the interpolator", rz.val == interp(xs(i), ys(i)), e)
        if cls == "SparseHeightMap":
            ls = [c for c in made if c[0] == "linspace"]
            ok = len(ls) == 2 and all(len(c[1]) == 3 and not c[2] for c in ls)
            ctx.check("call-argument obligation: exactly two numpy.linspace(start, stop, count) calls and no other sample source", z3.BoolVal(ok and len(made) == 2), None, None, "post")
            if ok:
                (ax, bx, nx), (ay, by, ny) = ls[0][1], ls[1][1]
                k = nx.val - 1
                ctx.check("C19 samples run from (x1, y1) to (x2, y2), both ends included: linspace(x1, x2, k+1) and linspace(y1, y2, k+1) with the same k >= 1",
                          AND(ax.val == x1, bx.val == x2, ay.val == y1, by.val == y2, nx.val == ny.val, k >= 1, z3.IsInt(k)), None, None, "post")
            ctx.trust("sample arrays are modelled by ONE generic element: numpy arithmetic, the interpolator called on whole arrays, zip and column_stack act element by element (assumed; bounded stand-in on real numpy)")
            ctx.trust("numpy.linspace(a, b, n): n evenly spaced samples, first == a and last == b (assumed; exercised by the bounded stand-in)")
        else:
            ok = len(made) == 1 and made[0][0] == "draw.line" and len(made[0][1]) == 4 and not made[0][2]
            ctx.check("call-argument obligation: exactly one skimage.draw.line(r0, c0, r1, c1) call and no other sample source", z3.BoolVal(ok), None, None, "post")
            if ok:
                a = made[0][1]
                def rounded(v, c): return AND(z3.IsInt(v.val), v.val - c <= z3.RealVal("1/2"), c - v.val <= z3.RealVal("1/2"))
                ctx.check("C19 the pixel line runs from round(x1, y1) to round(x2, y2), in that argument order", AND(rounded(a[0], x1), rounded(a[1], y1), rounded(a[2], x2), rounded(a[3], y2)), None, None, "post")
            ctx.trust("skimage.draw.line(r0, c0, r1, c1): the pixels of the discrete line from (r0, c0) to (r1, c1), both ends included, in order (assumed; exercised by the bounded stand-in)")
    return u


_line_unit("RasterHeightMap"); _line_unit("SparseHeightMap")


def _sample_path_unit(cls):
    @unit(f"{cls}.sample_path", ["C19"])
    def u(ctx):
        st = State(T, {}, {}, []); x = ctx.executor()
        m, sc, tol, w, h, calls = mk_map(st, cls, x)
        arr = st.alloc("LineArray", {})
        log = []
        x.ext_names["numpy"] = VModule("numpy")
        def asarray(x_, args, kwargs, st_, n):
            log.append(("asarray", args[0], dict(kwargs)))
            x_.raise_if(st_, fresh("not_numeric", z3.BoolSort()), "ValueError", n)      # numpy raises ValueError for values that are not numbers
            return arr
        x.ext["numpy.asarray"] = asarray
        nshape = VNum(z3.IntVal(0), z3.ToReal(fresh("shape0", z3.IntSort())), True)
        # the array's shape, as far as `shape != (4,)` can tell: one length (an array of another rank is any length other than 4)
        x.contracts[("LineArray", "@shape")] = lambda x_, recv, a, k, st_: VTuple([nshape])
        is4 = nshape.val == 4
        pts = st.alloc("Samples", {}); out = st.alloc("Filtered", {})
        def h_line(x_, recv, args, kwargs, st_): log.append(("interpolate", args[0])); return pts
        def h_filter(x_, recv, args, kwargs, st_): log.append(("filter", args[0], args[1])); return out
        x.contracts[(cls, "_interpolate_line")] = h_line; x.contracts[(cls, "_filter_points")] = h_filter
        raw = st.alloc("UserLine", {})
        exits = ctx.run(x, f"{cls}.sample_path", [m, raw], {}, st)
        covers(ctx, exits)
        for e in exits:
            if e.kind == "raise":
                ctx.check(f"only ValueError escapes @{e.where}", z3.BoolVal(e.payload == "ValueError"), e, None, "raises")
            else:
                ctx.check("a line that is not 4 numbers is rejected", is4, e, None, "post")
                names = [c[0] for c in log]
                ok = names == ["asarray", "interpolate", "filter"] and log[0][1] is raw or (names == ["asarray", "interpolate", "filter"] and isinstance(log[0][1], VRef) and log[0][1].oid == raw.oid)
                ok = ok and isinstance(log[1][1], VRef) and log[1][1].oid == arr.oid and isinstance(log[2][1], VRef) and log[2][1].oid == pts.oid
                ctx.check("sample_path == _filter_points(_interpolate_line(line), tolerance of the map): all samples of the line, filtered with the configured tolerance",
                          AND(z3.BoolVal(bool(ok)), v_same(log[2][2], tol) if len(log) == 3 else F, z3.BoolVal(isinstance(e.payload, VRef) and e.payload.oid == out.oid)), e, None, "post")
    return u


_sample_path_unit("RasterHeightMap"); _sample_path_unit("SparseHeightMap")


# ---------------------------------------------------------------------------------------------- FlatHeightMap: the "no data" map
@unit("FlatHeightMap.get_depth_at", ["C19"])
def u_flat_depth(ctx):
    st = State(T, {}, {}, []); x = ctx.executor()
    m = st.alloc("FlatHeightMap", {})
    px, _ = sym_num("x", finite=True); py, _ = sym_num("y", finite=True)
    exits = ctx.run(x, "FlatHeightMap.get_depth_at", [m, px, py], {}, st)
    covers(ctx, exits); never_raises(ctx, exits)
    for e in exits:
        if e.kind == "return": ctx.check("a map without data is zero everywhere (zero outside the data)", AND(e.payload.finite, e.payload.val == 0), e, None, "post")


@unit("FlatHeightMap.sample_path", ["C19"])
def u_flat_path(ctx):
    st = State(T, {}, {}, []); x = ctx.executor()
    m = st.alloc("FlatHeightMap", {})
    cs = [sym_num(nm, finite=True)[0] for nm in ("x1", "y1", "x2", "y2")]
    arr = st.alloc("LineArray", {}); raw = st.alloc("UserLine", {})
    nshape = VNum(z3.IntVal(0), z3.ToReal(fresh("shape0", z3.IntSort())), True)
    x.contracts[("LineArray", "@shape")] = lambda x_, recv, a, k, st_: VTuple([nshape])
    def arr_get(x_, recv, args, kwargs, st_):
        i = x_.concrete(args[0])
        if i not in (0, 1, 2, 3): raise Unsupported("line index")
        x_.raise_if(st_, NOT(nshape.val > i), "IndexError")
        return cs[i]
    x.contracts[("LineArray", "__getitem__")] = arr_get
    x.ext_names["numpy"] = VModule("numpy")
    def asarray(x_, args, kwargs, st_, n):
        x_.raise_if(st_, fresh("not_numeric", z3.BoolSort()), "ValueError", n); return arr
    x.ext["numpy.asarray"] = asarray
    x.ext["numpy.array"] = lambda x_, args, kwargs, st_, n: args[0]
    exits = ctx.run(x, "FlatHeightMap.sample_path", [m, raw], {}, st)
    covers(ctx, exits)
    for e in exits:
        if e.kind == "raise":
            ctx.check(f"only ValueError escapes @{e.where}", z3.BoolVal(e.payload == "ValueError"), e, None, "raises"); continue
        ctx.check("a line that is not 4 numbers is rejected", nshape.val == 4, e, None, "post")
        rows = x.unpack(e.payload, State(e.cond, {}, e.heap, []), None)
        ok = len(rows) == 2
        vals = [[x.as_num(State(e.cond, {}, e.heap, []), c) for c in x.unpack(r, State(e.cond, {}, e.heap, []), None)] for r in rows] if ok else []
        ok = ok and all(len(v) == 3 for v in vals)
        ctx.check("the path of a flat map is its two ends at height zero: (x1, y1, 0), (x2, y2, 0)",
                  AND(z3.BoolVal(bool(ok)), *([vals[0][0].val == cs[0].val, vals[0][1].val == cs[1].val, vals[0][2].val == 0,
                                                vals[1][0].val == cs[2].val, vals[1][1].val == cs[3].val, vals[1][2].val == 0] if ok else [])), e, None, "post")


# ---------------------------------------------------------------------------------------------- RasterHeightMap construction: what "the stored height" is
@unit("RasterHeightMap.from_path", ["C19"])
def u_raster_from_path(ctx):
    import cv2
    st = State(T, {}, {}, []); x = ctx.executor()
    x.ext_names["cv"] = VModule("cv")
    for nm in dir(cv2):
        if nm.startswith("IMREAD_") and isinstance(getattr(cv2, nm), int): x.ext[f"cv.{nm}"] = num(int(getattr(cv2, nm)))     # the constants of the installed OpenCV
    img = st.alloc("Image", {}); missing = fresh("unreadable", z3.BoolSort())
    reads, made = [], []
    def imread(x_, args, kwargs, st_, n):
        reads.append((args, dict(kwargs))); return VOpt(missing, img)
    x.ext["cv.imread"] = imread
    orig_construct = x.construct
    def construct(name, args, kwargs, st_, n=None):
        if name == "RasterHeightMap": made.append((st_.pc, args, dict(kwargs))); return st_.alloc("RasterHeightMap", {"$image": (as_opt(args[0]).inner if isinstance(args[0], VOpt) else args[0]) if args else NONE})
        return orig_construct(name, args, kwargs, st_, n)
    x.construct = construct
    path = VStr(None, fresh("path", z3.StringSort()))
    exits = ctx.run(x, "RasterHeightMap.from_path", [VClass("RasterHeightMap"), path], {}, st)
    covers(ctx, exits)
    raises_iff(ctx, exits, {"ImageLoadError": missing})
    ok = len(reads) == 1 and len(reads[0][0]) == 2 and not reads[0][1]
    ctx.check("call-argument obligation: exactly one cv.imread(path, flags)", z3.BoolVal(ok), None, None, "post")
    if ok:
        a = reads[0][0]
        fl = x.concrete(a[1])
        ctx.check("C19 the image is read as ONE grey channel at its own bit depth: flags == IMREAD_GRAYSCALE | IMREAD_ANYDEPTH (without ANYDEPTH a 16-bit image is reduced to 8 bits before it is stored)",
                  AND(z3.BoolVal(fl == (cv2.IMREAD_GRAYSCALE | cv2.IMREAD_ANYDEPTH)), a[0].z() == path.z()), None, None, "post")
    for e in exits:
        if e.kind != "return": continue
        r = e.payload
        ctx.check("the map is built from exactly the pixels that were read", z3.BoolVal(isinstance(r, VRef) and r.cls == "RasterHeightMap" and len(made) == 1 and len(made[0][1]) == 1
                  and isinstance(e.heap[r.oid].get("$image"), VRef) and e.heap[r.oid]["$image"].oid == img.oid), e, None, "post")
    ctx.trust("cv2.imread(path, IMREAD_GRAYSCALE | IMREAD_ANYDEPTH): the file's grey values as uint8 or uint16, None if unreadable (assumed; 8- and 16-bit files in the bounded stand-in)")


@unit("RasterHeightMap._to_height_map", ["C19"])
def u_raster_normalise(ctx):
    st = State(T, {}, {}, []); x = ctx.executor()
    m = st.alloc("RasterHeightMap", {})
    is16 = fresh("dtype_is_uint16", z3.BoolSort())
    img = st.alloc("Image", {})
    x.contracts[("Image", "@shape")] = lambda x_, recv, a, k, st_: VOpaque("shape", fresh("shape", z3.IntSort()))
    x.contracts[("Image", "@dtype")] = lambda x_, recv, a, k, st_: VOpaque("dtype", z3.If(is16, z3.IntVal(16), z3.IntVal(8)))
    x.ext_names["uint16"] = VOpaque("dtype", z3.IntVal(16)); x.ext_names["float32"] = VOpaque("dtype", z3.IntVal(32))
    x.ext_names["numpy"] = VModule("numpy")
    calls = []
    x.ext["numpy.empty"] = lambda x_, args, kwargs, st_, n: st_.alloc("OutArray", {})
    def divide(x_, args, kwargs, st_, n):
        calls.append((args, dict(kwargs))); return kwargs.get("out", st_.alloc("OutArray", {}))
    x.ext["numpy.divide"] = divide
    exits = ctx.run(x, "RasterHeightMap._to_height_map", [m, img], {}, st)
    covers(ctx, exits); never_raises(ctx, exits)
    ok = len(calls) == 1 and len(calls[0][0]) == 2 and isinstance(calls[0][0][0], VRef) and calls[0][0][0].oid == img.oid
    ctx.check("call-argument obligation: exactly one numpy.divide(image, full_scale, ...) over the whole image", z3.BoolVal(ok), None, None, "post")
    if ok:
        d = x.as_num(State(T, {}, exits[-1].heap, []), calls[0][0][1])
        ctx.check("C19 stored height = pixel / full scale of the pixel type: 65535 for 16-bit images, 255 otherwise (white is height 1.0 at either depth)",
                  AND(d.finite, d.val == ITE(is16, z3.RealVal(65535), z3.RealVal(255))), None, None, "post")
    for e in exits:
        if e.kind == "return" and ok:
            ctx.check("the normalised array is what is returned", z3.BoolVal(isinstance(e.payload, VRef) and (e.payload.cls == "OutArray")), e, None, "post")


@unit("RasterHeightMap._create_interpolator", ["C19"])
def u_raster_create(ctx):
    st = State(T, {}, {}, []); x = ctx.executor()
    m = st.alloc("RasterHeightMap", {})
    w, _ = sym_num("width", isint=True, finite=True); h, _ = sym_num("height", isint=True, finite=True)
    hm = st.alloc("HeightArray", {"$w": w, "$h": h})
    x.contracts[("HeightArray", "@shape")] = lambda x_, recv, a, k, st_: VTuple([st_.heap[recv.oid]["$h"], st_.heap[recv.oid]["$w"]])      # numpy: (rows, columns)
    x.ext_names["numpy"] = VModule("numpy")
    x.ext["numpy.arange"] = lambda x_, args, kwargs, st_, n: st_.alloc("Arange", {"$n": x_.as_num(st_, args[0], n), "$extra": VBool(z3.BoolVal(len(args) != 1 or bool(kwargs)))})
    made = []
    def rbs(x_, args, kwargs, st_, n): made.append((args, dict(kwargs))); return st_.alloc("Interpolator", {})
    x.ext_names["RectBivariateSpline"] = VFunc("RectBivariateSpline", rbs)
    exits = ctx.run(x, "RasterHeightMap._create_interpolator", [m, hm], {}, st)
    covers(ctx, exits); never_raises(ctx, exits)
    ok = len(made) == 1 and len(made[0][0]) == 3 and not made[0][1] and all(isinstance(a, VRef) for a in made[0][0]) and made[0][0][0].cls == "Arange" and made[0][0][1].cls == "Arange"
    ctx.check("call-argument obligation: exactly one RectBivariateSpline(row coordinates, column coordinates, heights), default (interpolating) smoothing", z3.BoolVal(bool(ok)), None, None, "post")
    if ok:
        hp = exits[-1].heap; a = made[0][0]
        ctx.check("C19 pixel (row r, column c) sits at spline coordinates (r, c): rows 0..height-1 first, columns 0..width-1 second, over the map itself",
                  AND(hp[a[0].oid]["$n"].val == h.val, hp[a[1].oid]["$n"].val == w.val, NOT(hp[a[0].oid]["$extra"].t), NOT(hp[a[1].oid]["$extra"].t), z3.BoolVal(a[2].oid == hm.oid)), None, None, "post")
    ctx.trust("scipy RectBivariateSpline(x, y, z) with default s=0 interpolates z[i, j] exactly at (x[i], y[j]) (assumed; bounded check)")


def _init_unit(cls):
    @unit(f"{cls}.__init__", ["C19"])
    def u(ctx):
        st = State(T, {}, {}, []); x = ctx.executor()
        m = st.alloc(cls, {})
        data = st.alloc("InputData", {})
        log = []
        def h_norm(x_, recv, args, kwargs, st_): log.append(("normalise", args[0])); return st_.alloc("HeightArray", {"$from": args[0]})
        def h_create(x_, recv, args, kwargs, st_): log.append(("create", args[0])); return st_.alloc("Interpolator", {"$from": args[0]})
        x.contracts[(cls, "_to_height_map")] = h_norm; x.contracts[(cls, "_create_interpolator")] = h_create
        exits = ctx.run(x, f"{cls}.__init__", [m, data], {}, st)
        covers(ctx, exits); never_raises(ctx, exits)
        for e in exits:
            if e.kind != "return": continue
            o = e.heap[m.oid]
            sc = x.as_num(State(e.cond, {}, e.heap, []), o["_scale_z"]); tl = x.as_num(State(e.cond, {}, e.heap, []), o["_tolerance"])
            ctx.check("a new map has scale 1 and a positive tolerance (the setters' invariants: scale > 0, tolerance >= 0)", AND(sc.finite, sc.val == 1, tl.finite, tl.val > 0), e, None, "post")
            ip = o.get("_interpolator")
            src = e.heap[ip.oid].get("$from") if isinstance(ip, VRef) and ip.cls == "Interpolator" else None
            if cls == "RasterHeightMap":
                hm = o.get("_height_map")
                ok = (isinstance(src, VRef) and isinstance(hm, VRef) and src.oid == hm.oid and isinstance(e.heap[hm.oid].get("$from"), VRef) and e.heap[hm.oid]["$from"].oid == data.oid
                      and [c[0] for c in log] == ["normalise", "create"])
                ctx.check("the interpolator is built over the stored map, which is the normalised image given to the constructor", z3.BoolVal(bool(ok)), e, None, "post")
            else:
                ok = isinstance(src, VRef) and src.oid == data.oid and [c[0] for c in log] == ["create"]
                ctx.check("the interpolator is built over exactly the points given to the constructor", z3.BoolVal(bool(ok)), e, None, "post")
    return u


_init_unit("RasterHeightMap"); _init_unit("SparseHeightMap")
