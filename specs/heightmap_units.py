"""Contracts on heightmaps/raster_heightmap.py and heightmaps/sparse_heightmap.py (C19).

scipy interpolants, skimage.draw.line and numpy are external: the deductive obligations are about what gscrib itself does —
range test and (row, column) orientation, scaling, argument wiring of the interpolators, and the tolerance filter loop.
The interpolants' own behaviour (exact at samples, inside [min, max] in the hull, 0 outside) is an assumed contract exercised
by the bounded stand-in specs/bounded.py:c19_maps."""
import ast
import z3
from pyvc.values import *
from pyvc.state import State
from pyvc.ctx import unit
from specs.common import *
from specs.dsl import *

R = z3.RealSort()
interp = z3.Function("interp", R, R, R)          # value the interpolator object returns for its two arguments, in call order


def mk_map(st, cls, x):
    sc, _ = sym_num("scale", finite=True); tol, _ = sym_num("tolerance", finite=True)
    ip = st.alloc("Interpolator", {})
    w, _ = sym_num("width", isint=True, finite=True); h, _ = sym_num("height", isint=True, finite=True)
    hm = st.alloc("HeightArray", {"$w": w, "$h": h})
    m = st.alloc(cls, {"_scale_z": sc, "_tolerance": tol, "_interpolator": ip, "_height_map": hm})
    calls = []
    def call_ip(x_, fv, args, kwargs, st_, n):
        a, b = x_.as_num(st_, args[0], n), x_.as_num(st_, args[1], n)
        calls.append((st_.pc, a, b))
        if cls == "RasterHeightMap":
            return st_.alloc("IpResult", {"$v": VNum(z3.IntVal(0), interp(a.val, b.val), False)})     # RectBivariateSpline returns a 2-D array: [0, 0] picks the value
        return VNum(z3.IntVal(0), interp(a.val, b.val), False)
    x.contracts[("Interpolator", "__call__")] = lambda x_, recv, args, kwargs, st_: call_ip(x_, recv, args, kwargs, st_, None)
    x.contracts[("HeightArray", "@shape")] = lambda x_, recv, a, k, st_: VTuple([st_.heap[recv.oid]["$h"], st_.heap[recv.oid]["$w"]])
    def ipres_get(x_, recv, args, kwargs, st_):
        return st_.heap[recv.oid]["$v"]
    x.contracts[("IpResult", "__getitem__")] = ipres_get
    return m, sc, tol, w, h, calls


@unit("RasterHeightMap.get_depth_at", ["C19"])
def u_raster_depth(ctx):
    st = State(T, {}, {}, []); x = ctx.executor()
    m, sc, tol, w, h, calls = mk_map(st, "RasterHeightMap", x)
    px, _ = sym_num("x", finite=True); py, _ = sym_num("y", finite=True)
    ctx.assume(w.val >= 4, h.val >= 4, z3.IsInt(w.val), z3.IsInt(h.val))
    orig_index = x.index_
    def index_(base, idx, st_, n):
        if isinstance(base, VRef) and base.cls == "IpResult":
            ok = isinstance(idx, VTuple) and [x.concrete(i) for i in idx.items] == [0, 0]
            if not ok: raise Unsupported("interpolator result indexed with something else than [0, 0]")
            return st_.heap[base.oid]["$v"]
        return orig_index(base, idx, st_, n)
    x.index_ = index_
    exits = ctx.run(x, "RasterHeightMap.get_depth_at", [m, px, py], {}, st)
    covers(ctx, exits); never_raises(ctx, exits)
    inside = AND(px.val >= 0, px.val < w.val, py.val >= 0, py.val < h.val)
    for e in exits:
        if e.kind != "return": continue
        r = e.payload
        ctx.check("outside [0, width) x [0, height) the depth is exactly 0.0", IMP(NOT(inside), AND(r.finite, r.val == 0)), e, None, "post")
        ctx.check("inside, the depth is scale x interpolator(row = y, column = x): x is the column, y is the row", IMP(inside, r.val == sc.val * interp(py.val, px.val)), e, None, "post")
        ctx.canary("canary: interpolator(x, y)", IMP(inside, r.val == sc.val * interp(px.val, py.val)), e)
    ctx.check("the interpolator is evaluated at most once per query", z3.BoolVal(len(calls) == 1), None, None, "post")
    ctx.trust("scipy RectBivariateSpline(rows, cols, z)(r, c)[0, 0] interpolates z exactly at integer (r, c) (assumed; bounded check)")


@unit("SparseHeightMap.get_depth_at", ["C19"])
def u_sparse_depth(ctx):
    st = State(T, {}, {}, []); x = ctx.executor()
    m, sc, tol, w, h, calls = mk_map(st, "SparseHeightMap", x)
    px, _ = sym_num("x", finite=True); py, _ = sym_num("y", finite=True)
    exits = ctx.run(x, "SparseHeightMap.get_depth_at", [m, px, py], {}, st)
    covers(ctx, exits); never_raises(ctx, exits)
    for e in exits:
        if e.kind != "return": continue
        ctx.check("depth is scale x interpolator(x, y)", e.payload.val == sc.val * interp(px.val, py.val), e, None, "post")
        ctx.canary("canary: unscaled", e.payload.val == interp(px.val, py.val), e)
    ctx.trust("scipy LinearNDInterpolator(points, values, fill_value=0.0): piecewise linear on the Delaunay triangulation (values inside [min, max] of the samples, exact at samples), "
              "0.0 outside the convex hull (assumed; bounded check)")


def _setter(cls, method, field, strict):
    @unit(f"{cls}.{method}", ["C19"])
    def u(ctx):
        st = State(T, {}, {}, []); x = ctx.executor()
        m, sc, tol, w, h, calls = mk_map(st, cls, x)
        v, wf = sym_num("v"); ctx.assume(wf)
        h0 = st.snap()
        exits = ctx.run(x, f"{cls}.{method}", [m, v], {}, st)
        covers(ctx, exits)
        raises_iff(ctx, exits, {"ValueError": n_le(v, num(0)) if strict else n_lt(v, num(0))})
        on_raise_unchanged(ctx, exits, h0, {"map": m})
        post(ctx, exits, "value recorded", lambda e: v_same(e.heap[m.oid][field], v))
        frame(ctx, exits, h0, m, {field}, name="map")
    return u


for _c in ("RasterHeightMap", "SparseHeightMap"):
    _setter(_c, "set_scale", "_scale_z", True)
    _setter(_c, "set_tolerance", "_tolerance", False)


# ---------------------------------------------------------------------------------------------- the tolerance filter (both classes carry the same loop)
def _filter_unit(cls):
    @unit(f"{cls}._filter_points", ["C19"])
    def u(ctx):
        st = State(T, {}, {}, []); x = ctx.executor()
        m, sc, tolf, w, h, calls = mk_map(st, cls, x)
        zf = z3.Function("zrow", z3.IntSort(), R)            # height of the i-th sample
        n = fresh("n_samples", z3.IntSort())
        tol, _ = sym_num("tol", finite=True)
        ctx.assume(n >= 1, tol.val >= 0)
        def row(st_, i): return st_.alloc("Row", {"$i": i, "$z": VNum(z3.IntVal(0), zf(i), False)})
        pts = st.alloc("Samples", {"$n": n})
        def samples_get(x_, recv, args, kwargs, st_):
            i = x_.concrete(args[0])
            if i == 0: return row(st_, z3.IntVal(0))
            if i == -1: return row(st_, n - 1)
            raise Unsupported("sample index")
        x.contracts[("Samples", "__getitem__")] = samples_get
        def row_get(x_, recv, args, kwargs, st_):
            if x_.concrete(args[0]) != 2: raise Unsupported("row component other than the height [2]")
            return st_.heap[recv.oid]["$z"]
        x.contracts[("Row", "__getitem__")] = row_get
        record = []
        # `lines`: python list; after the cut loop it is [first, ..., L] with ghost L = last appended row
        def sym_append(x_, recv, args, kwargs, st_):
            o = st_.heap[recv.oid]; o["$last_i"] = st_.heap[args[0].oid]["$i"]; o["$appended"] = VBool(T); return NONE
        x.contracts[("SymList", "append")] = sym_append
        def sl_get(x_, recv, args, kwargs, st_):
            if x_.concrete(args[0]) != -1: raise Unsupported("lines index")
            return row(st_, st_.heap[recv.oid]["$last_i"])
        x.contracts[("SymList", "__getitem__")] = sl_get
        def array_equal(x_, args, kwargs, st_, n_):
            a, b = args
            return VBool(st_.heap[a.oid]["$i"] == st_.heap[b.oid]["$i"])     # assumed: rows compare equal iff they are the same sample (distinct samples differ in x or y)
        x.ext["numpy.array_equal"] = array_equal
        x.ext["numpy.array"] = lambda x_, args, kwargs, st_, n_: args[0]
        x.ext_names["numpy"] = VModule("numpy")
        def loop(x_, node, st_):
            it = x_.ev(node.iter, st_)
            record.append(("the loop runs over all samples, in order", st_.pc, z3.BoolVal(isinstance(it, VRef) and it.oid == pts.oid)))
            lines0 = st_.env["lines"]
            items0 = st_.heap[lines0.oid]["$l"].items
            record.append(("the output starts with the first sample", st_.pc, z3.BoolVal(len(items0) == 1 and isinstance(items0[0], VRef) and items0[0].cls == "Row") if True else T))
            first = items0[0]
            # invariant: last_z is the height of the last row appended to lines
            lastrow = fresh("last_kept", z3.IntSort())
            sl = st_.alloc("SymList", {"$first": first, "$last_i": lastrow, "$appended": VBool(F)})
            st_.env["lines"] = sl
            lz0 = x_.as_num(st_, st_.env["last_z"]).val
            record.append(("loop invariant on entry: last_z is the height of the last kept sample (the first one)", st_.pc, lz0 == zf(z3.IntVal(0))))
            i = fresh("i", z3.IntSort())
            s2 = st_.fork()
            s2.env["last_z"] = VNum(z3.IntVal(0), zf(lastrow), False)
            s2.pc = simp(AND(st_.pc, i >= 0, i < n, lastrow >= 0, lastrow < n))
            x_.assign(node.target, row(s2, i), s2)
            x_.block(node.body, s2)
            newlast_i = s2.heap[s2.env["lines"].oid]["$last_i"]
            kept = s2.heap[s2.env["lines"].oid]["$appended"].t
            record.append(("an appended sample is the current one; otherwise the list is untouched", s2.pc, ITE(kept, newlast_i == i, newlast_i == lastrow)))
            lz1 = x_.as_num(s2, s2.env["last_z"]).val
            d = zf(i) - zf(lastrow); absd = ITE(d < 0, -d, d)
            record.append(("C19 every dropped sample differs in height from the previously kept one by less than the tolerance; a kept one by at least the tolerance",
                           s2.pc, AND(IMP(NOT(kept), absd < tol.val), IMP(kept, absd >= tol.val))))
            record.append(("loop invariant preserved: last_z is the height of the last kept sample", s2.pc,
                           lz1 == zf(newlast_i)))
            # after the loop: some last kept row
            endrow = fresh("last_kept_end", z3.IntSort())
            st_.heap[sl.oid]["$last_i"] = endrow
            st_.env["last_z"] = VNum(z3.IntVal(0), zf(endrow), False)
            st_.pc = simp(AND(st_.pc, endrow >= 0, endrow < n))
        x.loop_handlers[(f"{cls}._filter_points", 1)] = loop
        exits = ctx.run(x, f"{cls}._filter_points", [m, pts, tol], {}, st)
        for name, pc, f in record: ctx.check(name, IMP(pc, f), None, None, "inv")
        covers(ctx, exits); never_raises(ctx, exits)
        for e in exits:
            if e.kind != "return": continue
            r = e.payload
            o = e.heap[r.oid]
            ctx.check("the output ends with the last sample of the line (appended if it was filtered out)", o["$last_i"] == n - 1, e, None, "post")
            ctx.check("the output begins with the first sample", e.heap[o["$first"].oid]["$i"] == 0, e, None, "post")
        ctx.trust("numpy.array_equal(row_a, row_b) is true exactly for the same sample; the for-statement visits the samples in order, appends keep that order (subsequence)")
    return u


_filter_unit("RasterHeightMap"); _filter_unit("SparseHeightMap")


@unit("SparseHeightMap._create_interpolator", ["C19"])
def u_sparse_create(ctx):
    st = State(T, {}, {}, []); x = ctx.executor()
    m, sc, tol, w, h, calls = mk_map(st, "SparseHeightMap", x)
    data = st.alloc("DataArray", {})
    cols = {}
    def data_get(x_, recv, args, kwargs, st_): raise Unsupported("unexpected")
    orig_sub = x.e_Subscript
    def e_sub(node, st_):
        base = x.ev(node.value, st_)
        if isinstance(base, VRef) and base.cls == "DataArray":
            s = node.slice
            ok = isinstance(s, ast.Tuple) and len(s.elts) == 2 and isinstance(s.elts[0], ast.Slice) and s.elts[0].lower is None and s.elts[0].upper is None and isinstance(s.elts[1], ast.Constant)
            if not ok: raise Unsupported("column selection shape")
            return st_.alloc("Column", {"$col": num(s.elts[1].value)})
        return orig_sub(node, st_)
    x.e_Subscript = e_sub
    made = []
    def lnd(x_, args, kwargs, st_, n):
        made.append((args, kwargs)); return st_.alloc("Interpolator", {})
    x.ext_names["LinearNDInterpolator"] = VFunc("LinearNDInterpolator", lnd)
    x.ext_names["numpy"] = VModule("numpy"); x.ext["numpy.nan"] = num(float("nan")); x.ext["numpy.inf"] = num(float("inf"))
    def zip_(x_, recv, args, kwargs, st_): return None
    orig_iter = x.iter_builtin
    def iter_builtin(name, args, st_, n):
        if name == "zip" and all(isinstance(a, VRef) and a.cls == "Column" for a in args):
            return st_.alloc("ZipCols", {"$cols": VTuple(list(args))})
        return orig_iter(name, args, st_, n)
    x.iter_builtin = iter_builtin
    orig_construct = x.construct
    def construct(name, args, kwargs, st_, n=None):
        if name == "list" and args and isinstance(args[0], VRef) and args[0].cls == "ZipCols": return args[0]
        return orig_construct(name, args, kwargs, st_, n)
    x.construct = construct
    exits = ctx.run(x, "SparseHeightMap._create_interpolator", [m, data], {}, st)
    never_raises(ctx, exits)
    ok = False
    if len(made) == 1:
        args, kw = made[0]
        try:
            pts, vals = args
            c = [x.concrete(st.heap[q.oid]["$col"]) if q.oid in st.heap else None for q in exits[-1].heap[pts.oid]["$cols"].items]
            c = [x.concrete(exits[-1].heap[q.oid]["$col"]) for q in exits[-1].heap[pts.oid]["$cols"].items]
            vcol = x.concrete(exits[-1].heap[vals.oid]["$col"])
            fill = x.concrete(kw.get("fill_value")) if "fill_value" in kw else None
            ok = (c == [0, 1] and vcol == 2 and fill == 0.0 and set(kw) == {"fill_value"})
        except Exception: ok = False
    ctx.check("call-argument obligation: LinearNDInterpolator(list(zip(column 0, column 1)), column 2, fill_value=0.0) — (x, y) points, z values, zero outside the data", z3.BoolVal(ok), None, None, "post")
