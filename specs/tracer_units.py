"""Contracts on geometry/tracer.py and enums/types/direction.py (C10 curve membership / end on target / sweep,
C11 relative == absolute, C12 resolution).

Trigonometry is uninterpreted: cosf, sinf, at2, hyp, sqrtf over the reals with π a symbolic constant (assumption A-pi: math.pi is π,
A-real).  Facts enter only as named lemma instances (lemmas/Trig.lean):
  T1 cos_sq_add_sin_sq(u)          cosf(u)² + sinf(u)² == 1
  T2 periodic(u, v, k)             u − v == 2πk ∧ k ∈ ℤ  →  cosf(u) == cosf(v) ∧ sinf(u) == sinf(v)
  T3 polar(x, y)                   hyp(x,y)·cosf(at2(y,x)) == x ∧ hyp(x,y)·sinf(at2(y,x)) == y
  T4 arg_range(x, y)               −π < at2(y,x) ≤ π
  T5 hypot(x, y)                   hyp(x,y) ≥ 0 ∧ hyp(x,y)² == x² + y²
  T6 sqrt(a)                       a ≥ 0 → sqrtf(a) ≥ 0 ∧ sqrtf(a)² == a
numpy elementwise functions applied to an array of parameters are verified pointwise for one symbolic θ ∈ [0, 1]."""
import ast
import z3
from pyvc.values import *
from pyvc.state import State, Exit
from pyvc.ctx import unit
from specs.common import *
from specs.dsl import *

R = z3.RealSort()
cosf = z3.Function("cosf", R, R); sinf = z3.Function("sinf", R, R)
at2 = z3.Function("at2", R, R, R); hyp = z3.Function("hyp", R, R, R); sqrtf = z3.Function("sqrtf", R, R)
PI = z3.Real("PI")
PI_FACTS = AND(PI > z3.Q(314159, 100000), PI < z3.Q(314160, 100000))
Z0 = z3.IntVal(0)


def fin(t): return VNum(Z0, t, False)


def T1(u): return cosf(u) * cosf(u) + sinf(u) * sinf(u) == 1
def T2(u, v, k): return IMP(u - v == 2 * PI * k, AND(cosf(u) == cosf(v), sinf(u) == sinf(v)))      # k: an integer-valued term
def T3(x, y): return AND(hyp(x, y) * cosf(at2(y, x)) == x, hyp(x, y) * sinf(at2(y, x)) == y)
def T4(x, y): return AND(-PI < at2(y, x), at2(y, x) <= PI)
def T5(x, y): return AND(hyp(x, y) >= 0, hyp(x, y) * hyp(x, y) == x * x + y * y)
def T6(a): return IMP(a >= 0, AND(sqrtf(a) >= 0, sqrtf(a) * sqrtf(a) == a))


def install_trig(x, ctx):
    def f1(fn, lemmas):
        def h(x_, args, kwargs, st, n):
            a = x_.as_num(st, args[0], n)
            t = fn(a.val)
            for l in lemmas: x_.assume.append(l(a.val))
            return fin(t)
        return h
    def f2(fn, lemmas, swap=False):
        def h(x_, args, kwargs, st, n):
            a, b = x_.as_num(st, args[0], n), x_.as_num(st, args[1], n)
            p, q = (b.val, a.val) if swap else (a.val, b.val)
            for l in lemmas: x_.assume.append(l(p, q))
            return fin(fn(a.val, b.val))
        return h
    x.ext["np.cos"] = f1(cosf, [T1]); x.ext["np.sin"] = f1(sinf, [T1])
    x.ext["np.hypot"] = f2(hyp, [T5])
    x.ext["np.arctan2"] = f2(at2, [T3, T4, T5], swap=True)         # arctan2(y, x): lemmas are stated for (x, y)
    x.ext["np.sqrt"] = f1(sqrtf, [T6])
    x.ext["math.pi"] = fin(PI); x.ext["np.pi"] = fin(PI)
    x.assume.append(PI_FACTS)
    def isclose(x_, args, kwargs, st, n):
        a, b = x_.as_num(st, args[0], n), x_.as_num(st, args[1], n)
        rtol = x_.as_num(st, kwargs.get("rtol", num(1e-5)), n); atol = x_.as_num(st, kwargs.get("atol", num(1e-8)), n)
        d = a.val - b.val
        absd = ITE(d < 0, -d, d); absb = ITE(b.val < 0, -b.val, b.val)
        return VBool(absd <= atol.val + rtol.val * absb)
    x.ext["np.isclose"] = isclose
    def copysign(x_, args, kwargs, st, n):
        a, b = x_.as_num(st, args[0], n), x_.as_num(st, args[1], n)
        m = ITE(a.val < 0, -a.val, a.val)
        return fin(ITE(b.val < 0, -m, m))
    x.ext["np.copysign"] = copysign
    x.ext["np.column_stack"] = lambda x_, args, kwargs, st, n: VTuple(list(args[0].items))
    x.ext_names["np"] = VModule("np")
    def h_parametric(x_, recv, args, kwargs, st):
        st.log.append((T, ("parametric", args[0], args[1], kwargs)))
        return NONE
    x.contracts[("PathTracer", "parametric")] = h_parametric
    def h_estimate(x_, recv, args, kwargs, st):
        v, _ = sym_num("estimated_length", finite=True); return v
    x.contracts[("PathTracer", "estimate_length")] = h_estimate
    ctx.trust("A-pi: math.pi is π; trigonometric functions are the real functions (facts only through lemma instances T1–T6, lemmas/Trig.lean)",
              "numpy elementwise operations on an array of parameters act pointwise (verified for one symbolic θ)")


def mk_tracer(ctx, st):
    g, wf, info = mk_builder(st, ctx.w)
    tr = info["tracer"]
    o = st.heap[g.oid]
    return g, tr, wf, info


def known(p): return AND(*[NOT(c.none) for c in p.items()])


def call_closure(x, clo, theta, st):
    return x.call_fn(clo.node, [fin(theta)], {}, st, closure=clo.env, qual=clo.qual)


def abs_target(cur, req, rel):
    out = []
    for c, r in zip(cur.items(), req.items()):
        c0 = ITE(c.none, z3.RealVal(0), c.inner.val); r0 = ITE(r.none, z3.RealVal(0), r.inner.val)
        out.append(ITE(rel, c0 + r0, ITE(r.none, c0, r.inner.val)))
    return out


def sq(a): return a * a


def run_shape(ctx, method, mk_args):
    st = State(T, {}, {}, [])
    g, tr, wf, info = mk_tracer(ctx, st)
    x = ctx.executor(); install_trig(x, ctx)
    args, wfa = mk_args(ctx, st)
    ctx.assume(wf, wfa)
    h0 = st.snap()
    exits = ctx.run(x, f"PathTracer.{method}", [tr] + args, {}, st)
    return st, g, tr, info, x, h0, args, exits


def point_arg(name, finite=True, known_xy=True):
    p, wf = sym_point(name, finite=finite)
    return p, wf


# ---------------------------------------------------------------------------------------------- Direction.enforce
@unit("Direction.enforce", ["C10"])
def u_enforce(ctx):
    st = State(T, {}, {}, []); x = ctx.executor(); install_trig(x, ctx)
    d, wf = sym_enum("Direction", ctx.w)
    a, _ = sym_num("angle", finite=True)
    ctx.assume(wf, a.val > -2 * PI, a.val < 2 * PI)
    exits = ctx.run(x, "Direction.enforce", [d, a], {}, st)
    covers(ctx, exits); never_raises(ctx, exits)
    cw = d.idx == ctx.w.enum_index("Direction", "CLOCKWISE")
    for e in exits:
        if e.kind != "return": continue
        r = e.payload.val
        ctx.check("result ≡ angle (mod 2π): same end point", OR(r == a.val, r == a.val - 2 * PI, r == a.val + 2 * PI), e, None, "post")
        ctx.check("clockwise sweeps are in [−2π, 0), counter-clockwise sweeps in (0, 2π]; a zero angle becomes a full turn",
                  ITE(cw, AND(r >= -2 * PI, r < 0), AND(r > 0, r <= 2 * PI)), e, None, "post")
        ctx.canary("canary: angle unchanged", r == a.val, e)


# ---------------------------------------------------------------------------------------------- arc / circle
def arc_args(ctx, st):
    t, w1 = sym_point("target", finite=True); c, w2 = sym_point("center", finite=True)
    return [t, c], AND(w1, w2)


def check_arc(ctx, x, g, h0, exits, target, center, circle=False):
    o0 = h0[g.oid]; cur = o0["_current_axes"]
    rel = o0["_distance_mode"].idx == ctx.w.enum_index("DistanceMode", "RELATIVE")
    ox, oy, oz = [ITE(c.none, z3.RealVal(0), c.inner.val) for c in cur.items()]
    if circle: tx, ty, tz = ox, oy, oz
    else: tx, ty, tz = abs_target(cur, target, rel)
    cx = ox + ITE(center.x.none, z3.RealVal(0), center.x.inner.val); cy = oy + ITE(center.y.none, z3.RealVal(0), center.y.inner.val)
    cw = h0[h0[g.oid]["_state"].oid]["_current_direction"].idx == ctx.w.enum_index("Direction", "CLOCKWISE")
    radius = hyp(ox - cx, oy - cy); tradius = hyp(tx - cx, ty - cy)
    for e in exits:
        if e.kind == "raise":
            ctx.check(f"only ValueError (start and end not at the same distance from the centre) @{e.where}", z3.BoolVal(e.payload == "ValueError"), e, ["C10"], "raises")
            continue
        calls = [ev for gd, ev in e.log if ev[0] == "parametric"]
        ctx.check("hands exactly one curve to parametric()", z3.BoolVal(len(calls) == 1), e, ["C10"], "post")
        if len(calls) != 1: continue
        clo, length = calls[0][1], calls[0][2]
        theta = fresh("theta", R)
        st2 = State(AND(e.cond, theta >= 0, theta <= 1), {}, e.heap, [])
        pt = call_closure(x, clo, theta, st2)
        fx, fy, fz = [x.as_num(st2, v).val for v in pt.items]
        pre = [e.cond, theta >= 0, theta <= 1]
        def chk(name, f, extra=(), props=("C10",)): ctx.check(name, IMP(AND(*pre, *extra), f), None, list(props), "post")
        chk("every vertex lies on the circle of the start radius about the given centre", sq(fx - cx) + sq(fy - cy) == sq(radius))
        chk("Z is linear in the parameter (hence in the angle): z(θ) = o.z + θ·(t.z − o.z)", fz == oz + theta * (tz - oz))
        chk("the curve starts at the current position: f(0) == o", AND(fx == ox, fy == oy, fz == oz), [theta == 0])
        # end point: the angle at θ = 1 is the target's polar angle up to a whole turn (T2 with k ∈ {−1, 0, 1}); the radius differs from the
        # target's by at most the isclose tolerance 1e-8 + 1e-10·|r_t|
        start = at2(oy - cy, ox - cx); end = at2(ty - cy, tx - cx)
        u1 = None
        for k in (-1, 0, 1): x.assume.append(T2(start + (end - start + 2 * PI * k), end, z3.RealVal(k)))
        tol = z3.Q(1, 10 ** 8) + z3.Q(1, 10 ** 10) * tradius
        def absv(a): return ITE(a < 0, -a, a)
        x.assume.append(AND(absv(cosf(end)) <= 1, absv(sinf(end)) <= 1))          # consequence of T1 at `end` (kept explicit: z3 needs the bound, not the square)
        chk("the curve ends on the target within the np.isclose tolerance of the radius check (1e-8 + 1e-10·r): x, y; exactly in z",
            AND(absv(fx - tx) <= tol, absv(fy - ty) <= tol, fz == tz), [theta == 1], props=("C10", "C11"))
        # sweep: monotone angle start + total·θ with total in the direction's half-open range
        # (read off the closure: angles = start_angle + total_angle·θ; we recover total from the closure environment)
        env = clo.env
        total = x.as_num(st2, env["total_angle"]).val if "total_angle" in env else None
        if total is not None:
            ctx.check("the sweep is clockwise in [−2π, 0) or counter-clockwise in (0, 2π]" + ("; a circle is a full turn" if circle else ""),
                      IMP(e.cond, AND(ITE(cw, AND(total >= -2 * PI, total < 0), AND(total > 0, total <= 2 * PI)),
                                      ITE(cw, total == -2 * PI, total == 2 * PI) if circle else T)), None, ["C10"], "post")
            L = x.as_num(st2, length).val
            ctx.check("the length handed to parametric() is the helix length hypot(radius·sweep, height) (constant speed)", IMP(e.cond, L == hyp(radius * total, tz - oz)), None, ["C10", "C12"], "post")
    ctx.cover("reach: an arc is traced", OR(*[e.cond for e in exits if e.kind == "return"]), None, None,
              hint=None)


@unit("PathTracer.arc", ["C10", "C11", "C12"])
def u_arc(ctx):
    st, g, tr, info, x, h0, (target, center), exits = run_shape(ctx, "arc", arc_args)
    check_arc(ctx, x, g, h0, exits, target, center)


@unit("PathTracer.circle", ["C10", "C11", "C12"])
def u_circle(ctx):
    def mk(ctx_, st):
        c, w = sym_point("center", finite=True); return [c], w
    st, g, tr, info, x, h0, (center,), exits = run_shape(ctx, "circle", mk)
    check_arc(ctx, x, g, h0, exits, None, center, circle=True)
    for e in exits:
        if e.kind == "raise":
            ctx.check(f"C11 a circle about any centre is accepted in both distance modes (start == end) @{e.where}", F, e, ["C11", "C10"], "raises")


# ---------------------------------------------------------------------------------------------- helix / spiral / thread
def helix_args(ctx, st):
    t, w1 = sym_point("target", finite=True); c, w2 = sym_point("center", finite=True)
    n, _ = sym_num("turns", isint=True, finite=True)
    return [t, c, n], AND(w1, w2, z3.IsInt(n.val))


def check_helix(ctx, x, g, h0, exits, target, cx, cy, turns, props=("C10",), constant_radius=False, from_centre=False):
    o0 = h0[g.oid]; cur = o0["_current_axes"]
    rel = o0["_distance_mode"].idx == ctx.w.enum_index("DistanceMode", "RELATIVE")
    ox, oy, oz = [ITE(c.none, z3.RealVal(0), c.inner.val) for c in cur.items()]
    tx, ty, tz = abs_target(cur, target, rel)
    cw = h0[h0[g.oid]["_state"].oid]["_current_direction"].idx == ctx.w.enum_index("Direction", "CLOCKWISE")
    r0, r1 = hyp(ox - cx, oy - cy), hyp(tx - cx, ty - cy)
    for e in exits:
        if e.kind == "raise": continue
        calls = [ev for gd, ev in e.log if ev[0] == "parametric"]
        ctx.check("hands exactly one curve to parametric()", z3.BoolVal(len(calls) == 1), e, list(props), "post")
        if len(calls) != 1: continue
        clo = calls[0][1]
        theta = fresh("theta", R)
        st2 = State(AND(e.cond, theta >= 0, theta <= 1), {}, e.heap, [])
        pt = call_closure(x, clo, theta, st2)
        fx, fy, fz = [x.as_num(st2, v).val for v in pt.items]
        pre = [e.cond, theta >= 0, theta <= 1]
        def chk(name, f, extra=()): ctx.check(name, IMP(AND(*pre, *extra), f), None, list(props), "post")
        chk("every vertex is at distance r(θ) = r₀ + θ·(r₁ − r₀) from the centre (radius linear in the parameter)", sq(fx - cx) + sq(fy - cy) == sq(r0 + theta * (r1 - r0)))
        chk("Z is linear in the parameter", fz == oz + theta * (tz - oz))
        chk("the curve starts at the current position", AND(fx == ox, fy == oy, fz == oz), [theta == 0])
        start = at2(oy - cy, ox - cx); end = at2(ty - cy, tx - cx)
        env = clo.env
        total = x.as_num(st2, env["total_angle"]).val
        n = turns
        base = total - ITE(cw, -2 * PI, 2 * PI) * (n - 1)
        ctx.check("the total sweep is the base sweep (direction-enforced end−start) plus (turns − 1) whole turns in the selected direction",
                  IMP(e.cond, AND(OR(base == end - start, base == end - start - 2 * PI, base == end - start + 2 * PI),
                                  ITE(cw, AND(base >= -2 * PI, base < 0), AND(base > 0, base <= 2 * PI)))), None, list(props), "post")
        # end point: start + total == end + 2π·k for the integer k = ±(turns − 1) + {−1, 0, 1}
        for j in (-1, 0, 1):
            k = ITE(cw, -(n - 1), (n - 1)) + j
            x.assume.append(T2(start + total, end, k))
        chk("the curve ends exactly on the target", AND(fx == tx, fy == ty, fz == tz), [theta == 1])
        if constant_radius:
            ctx.check("C10 a thread keeps a constant radius: the centre handed to helix() is equidistant from start and target", IMP(e.cond, sq(r0) == sq(r1)), None, ["C10"], "post")
        if from_centre:
            ctx.check("C10 a spiral starts on its centre (radius grows linearly from 0)", IMP(e.cond, r0 == 0), None, ["C10"], "post")


@unit("PathTracer.helix", ["C10", "C11"])
def u_helix(ctx):
    st, g, tr, info, x, h0, (target, center, turns), exits = run_shape(ctx, "helix", helix_args)
    o0 = h0[g.oid]; cur = o0["_current_axes"]
    ox, oy = [ITE(c.none, z3.RealVal(0), c.inner.val) for c in cur.items()][:2]
    cx = ox + ITE(center.x.none, z3.RealVal(0), center.x.inner.val); cy = oy + ITE(center.y.none, z3.RealVal(0), center.y.inner.val)
    raises_iff(ctx, exits, {"ValueError": turns.val <= 0}, props=["C10"])
    check_helix(ctx, x, g, h0, exits, target, cx, cy, turns.val)
    covers(ctx, exits)


@unit("PathTracer.spiral", ["C10", "C11"])
def u_spiral(ctx):
    def mk(ctx_, st):
        t, w = sym_point("target", finite=True); n, _ = sym_num("turns", isint=True, finite=True)
        return [t, n], AND(w, z3.IsInt(n.val))
    st, g, tr, info, x, h0, (target, turns), exits = run_shape(ctx, "spiral", mk)
    o0 = h0[g.oid]; cur = o0["_current_axes"]
    ox, oy = [ITE(c.none, z3.RealVal(0), c.inner.val) for c in cur.items()][:2]
    check_helix(ctx, x, g, h0, exits, target, ox, oy, turns.val, from_centre=True)
    covers(ctx, exits)


@unit("PathTracer.thread", ["C10", "C11"])
def u_thread(ctx):
    def mk(ctx_, st):
        t, w = known_point("target", finite=True); p, _ = sym_num("pitch", finite=True)
        return [t, p], w
    st, g, tr, info, x, h0, (target, pitch), exits = run_shape(ctx, "thread", mk)
    o0 = h0[g.oid]; cur = o0["_current_axes"]
    rel = o0["_distance_mode"].idx == ctx.w.enum_index("DistanceMode", "RELATIVE")
    ox, oy, oz = [ITE(c.none, z3.RealVal(0), c.inner.val) for c in cur.items()]
    tx, ty, tz = abs_target(cur, target, rel)
    raises_iff(ctx, exits, {"ValueError": n_le(pitch, num(0))}, props=["C10"])
    # the thread axis goes through the midpoint of start and target
    mx, my = (ox + tx) / 2, (oy + ty) / 2
    turns_term = fresh("turns_of_thread", R)
    for e in exits:
        if e.kind != "return": continue
        calls = [ev for gd, ev in e.log if ev[0] == "parametric"]
        if len(calls) == 1 and "total_angle" in calls[0][1].env:
            pass
    # turns = max(1, int(|Δz| / pitch)) is an opaque positive integer for the curve obligations
    check_helix(ctx, x, g, h0, exits, target, mx, my, x.ghost.get("thread_turns", turns_term), constant_radius=True)
    covers(ctx, exits)
