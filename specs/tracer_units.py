"""Contracts on geometry/tracer.py and enums/types/direction.py (C10 curve membership / end on target / sweep,
C11 relative == absolute, C12 resolution).

Trigonometry is uninterpreted: cosf, sinf, at2, hyp, sqrtf over the reals with π a symbolic constant (assumption A-pi: math.pi is π,
A-real).  Facts enter only as named lemma instances (lemmas/Trig.lean):
  T1 cos_sq_add_sin_sq(u)          cosf(u)² + sinf(u)² == 1
  T2 periodic(u, v, k)             u − v == 2πk ∧ k ∈ ℤ  →  cosf(u) == cosf(v) ∧ sinf(u) == sinf(v)
  T3 polar(x, y)                   hyp(x,y)·cosf(at2(y,x)) == x ∧ hyp(x,y)·sinf(at2(y,x)) == y
  T4 arg_range(x, y)               −π < at2(y,x) ≤ π
  T5 hypot(x, y)                   hyp(x,y) ≥ 0 ∧ hyp(x,y)² == x² + y²
  T6 sqrt(a)                       a ≥ 0 → sqrtf(a) ≥ 0 ∧ sqrtf(a)² == a
numpy elementwise functions applied to an array of parameters are verified pointwise for one symbolic θ ∈ [0, 1]."""
import ast
import z3
from pyvc.values import *
from pyvc.state import State, Exit
from pyvc.ctx import unit
from specs.common import *
from specs.dsl import *
from specs import native

R = z3.RealSort()
cosf = z3.Function("cosf", R, R); sinf = z3.Function("sinf", R, R)
at2 = z3.Function("at2", R, R, R); hyp = z3.Function("hyp", R, R, R); nrm3 = z3.Function("nrm3", R, R, R, R); sqrtf = z3.Function("sqrtf", R, R)
PI = z3.Real("PI")
PI_FACTS = AND(PI > z3.Q(314159, 100000), PI < z3.Q(314160, 100000))
Z0 = z3.IntVal(0)


def fin(t): return VNum(Z0, t, False)


def T1(u): return cosf(u) * cosf(u) + sinf(u) * sinf(u) == 1
def T2(u, v, k): return IMP(u - v == 2 * PI * k, AND(cosf(u) == cosf(v), sinf(u) == sinf(v)))      # k: an integer-valued term
def T3(x, y): return AND(hyp(x, y) * cosf(at2(y, x)) == x, hyp(x, y) * sinf(at2(y, x)) == y)
def T4(x, y): return AND(-PI < at2(y, x), at2(y, x) <= PI)
def T5(x, y): return AND(hyp(x, y) >= 0, hyp(x, y) * hyp(x, y) == x * x + y * y)
def T6(a): return IMP(a >= 0, AND(sqrtf(a) >= 0, sqrtf(a) * sqrtf(a) == a))
def T9(a, b): return (cosf(a) - cosf(b)) * (cosf(a) - cosf(b)) + (sinf(a) - sinf(b)) * (sinf(a) - sinf(b)) <= (a - b) * (a - b)      # chord_le_arc


def install_trig(x, ctx):
    def f1(fn, lemmas):
        def h(x_, args, kwargs, st, n):
            a = x_.as_num(st, args[0], n)
            t = fn(a.val)
            for l in lemmas: x_.assume.append(l(a.val))
            return fin(t)
        return h
    def f2(fn, lemmas, swap=False):
        def h(x_, args, kwargs, st, n):
            a, b = x_.as_num(st, args[0], n), x_.as_num(st, args[1], n)
            p, q = (b.val, a.val) if swap else (a.val, b.val)
            for l in lemmas: x_.assume.append(l(p, q))
            x_.ghost.setdefault(fn.name() + "_args", []).append((st.pc, a.val, b.val))
            return fin(fn(a.val, b.val))
        return h
    x.ext["np.cos"] = f1(cosf, [T1]); x.ext["np.sin"] = f1(sinf, [T1])
    x.ext["np.hypot"] = f2(hyp, [T5])
    x.ext["np.arctan2"] = f2(at2, [T3, T4, T5], swap=True)         # arctan2(y, x): lemmas are stated for (x, y)
    def np_norm_vec(x_, args, kwargs, st, n):
        """assumed: numpy.linalg.norm(v) of a Point / 3-sequence is the Euclidean norm: nrm >= 0 and nrm² == x² + y² + z²; for a vector whose third
        component is zero it IS hypot(x, y) (so a planar rewrite of the chord length keeps every obligation, a 3-D one does not)"""
        if kwargs or len(args) != 1: raise Unsupported("np.linalg.norm with ord/axis")
        comps = [x_.as_num(st, c_, n).val for c_ in x_.unpack(args[0], st, n)]
        if len(comps) != 3: raise Unsupported("np.linalg.norm of a non 3-vector")
        t = nrm3(*comps)
        x_.assume.append(AND(t >= 0, t * t == comps[0] * comps[0] + comps[1] * comps[1] + comps[2] * comps[2]))
        x_.assume.append(IMP(comps[2] == 0, t == hyp(comps[0], comps[1]))); x_.assume.append(T5(comps[0], comps[1]))
        x_.ghost.setdefault("norm3_args", []).append((st.pc,) + tuple(comps))
        return fin(t)
    x.ext["np.linalg"] = VModule("np.linalg"); x.ext["np.linalg.norm"] = np_norm_vec
    def np_sqrt(x_, args, kwargs, st, n):
        a = x_.as_num(st, args[0], n)
        x_.assume.append(T6(a.val)); x_.assume.append(IMP(a.val == 0, sqrtf(a.val) == 0))
        x_.ghost["sqrt_arg"] = a.val
        return fin(sqrtf(a.val))
    x.ext["np.sqrt"] = np_sqrt
    x.ext["math.pi"] = fin(PI); x.ext["np.pi"] = fin(PI)
    x.assume.append(PI_FACTS)
    def isclose(x_, args, kwargs, st, n):
        a, b = x_.as_num(st, args[0], n), x_.as_num(st, args[1], n)
        rtol = x_.as_num(st, kwargs.get("rtol", num(1e-5)), n); atol = x_.as_num(st, kwargs.get("atol", num(1e-8)), n)
        d = a.val - b.val
        absd = ITE(d < 0, -d, d); absb = ITE(b.val < 0, -b.val, b.val)
        return VBool(absd <= atol.val + rtol.val * absb)
    x.ext["np.isclose"] = isclose
    def copysign(x_, args, kwargs, st, n):
        a, b = x_.as_num(st, args[0], n), x_.as_num(st, args[1], n)
        m = ITE(a.val < 0, -a.val, a.val)
        return fin(ITE(b.val < 0, -m, m))
    x.ext["np.copysign"] = copysign
    x.ext["np.column_stack"] = lambda x_, args, kwargs, st, n: VTuple(list(args[0].items))
    x.ext_names["np"] = VModule("np")
    def int_of_num(x_, v, st, n):
        """int(v) for a finite float: truncation toward zero"""
        k = fresh("trunc", R)
        x_.assume.append(AND(z3.IsInt(k), ITE(v.val >= 0, AND(k <= v.val, v.val < k + 1), AND(k >= v.val, v.val > k - 1))))
        return VNum(Z0, k, True)
    x.ext["int_of_num"] = int_of_num
    def h_parametric(x_, recv, args, kwargs, st):
        st.log.append((T, ("parametric", args[0], args[1], kwargs)))
        return NONE
    x.contracts[("PathTracer", "parametric")] = h_parametric
    def h_estimate(x_, recv, args, kwargs, st):
        v, _ = sym_num("estimated_length", finite=True); return v
    x.contracts[("PathTracer", "estimate_length")] = h_estimate
    ctx.trust("A-pi: math.pi is π; trigonometric functions are the real functions (facts only through lemma instances T1–T6, lemmas/Trig.lean)",
              "numpy elementwise operations on an array of parameters act pointwise (verified for one symbolic θ)")


def mk_tracer(ctx, st):
    g, wf, info = mk_builder(st, ctx.w)
    tr = info["tracer"]
    o = st.heap[g.oid]
    return g, tr, wf, info


def known(p): return AND(*[NOT(c.none) for c in p.items()])


def call_closure(x, clo, theta, st):
    return x.call_fn(clo.node, [fin(theta)], {}, st, closure=clo.env, qual=clo.qual)


def abs_target(cur, req, rel):
    out = []
    for c, r in zip(cur.items(), req.items()):
        c0 = ITE(c.none, z3.RealVal(0), c.inner.val); r0 = ITE(r.none, z3.RealVal(0), r.inner.val)
        out.append(ITE(rel, c0 + r0, ITE(r.none, c0, r.inner.val)))
    return out


def sq(a): return a * a


def h_to_absolute(x_, recv, args, kwargs, st_):
    """callee contract of GCodeCore.to_absolute(point) (proved against its body by the unit "GCodeCore.to_absolute"): the absolute target, every
    coordinate a number — relative mode: resolve(current) + resolve(point); absolute mode: the point's coordinate, or resolve(current) where it is None.
    Callers (the tracer shapes) are verified against this contract, so their obligations do not depend on how to_absolute() is written."""
    p = args[0]
    if not isinstance(p, VPoint): p = x_.construct("Point", x_.unpack(p, st_, None), {}, st_)
    o = st_.heap[recv.oid]
    rel = o["_distance_mode"].idx == x_.w.enum_index("DistanceMode", "RELATIVE")
    return VPoint(*[VOpt(F, fin(t)) for t in abs_target(o["_current_axes"], p, rel)])


@unit("GCodeCore.to_absolute", ["C10", "C11"])
def u_to_absolute(ctx):
    st = State(T, {}, {}, [])
    g, tr, wf, info = mk_tracer(ctx, st)
    x = ctx.executor()
    p, w1 = sym_point("point", finite=True)
    ctx.assume(wf, w1)
    h0 = st.snap()
    exits = ctx.run(x, "GCodeCore.to_absolute", [g, p], {}, st)
    covers(ctx, exits); never_raises(ctx, exits)
    o0 = h0[g.oid]
    rel = o0["_distance_mode"].idx == ctx.w.enum_index("DistanceMode", "RELATIVE")
    want = abs_target(o0["_current_axes"], p, rel)
    for e in exits:
        if e.kind != "return": continue
        r = e.payload
        ctx.check("C11 the absolute target: relative mode current + offset, absolute mode the given coordinate (the current one where omitted); unknown coordinates count as 0; every coordinate is a number",
                  AND(*[AND(NOT(c.none), c.inner.finite, c.inner.val == t) for c, t in zip(r.items(), want)]), e, None, "post")
        ctx.check("to_absolute() does not move the builder", unchanged_obj(h0, e.heap, g, fields=["_current_axes", "_distance_mode"]), e, None, "frame")
        ctx.canary("canary: the mode is ignored", AND(*[c.inner.val == ITE(q.none, z3.RealVal(0), q.inner.val) for c, q in zip(r.items(), p.items())]), e)


def run_shape(ctx, method, mk_args):
    st = State(T, {}, {}, [])
    g, tr, wf, info = mk_tracer(ctx, st)
    x = ctx.executor(); install_trig(x, ctx)
    x.contracts[("GCodeCore", "to_absolute")] = h_to_absolute        # verified in its own unit
    args, wfa = mk_args(ctx, st)
    ctx.assume(wf, wfa)
    h0 = st.snap()
    exits = ctx.run(x, f"PathTracer.{method}", [tr] + args, {}, st)
    ctx.replayer = native.tracer_replayer(ctx.w, method, g, h0, args)
    return st, g, tr, info, x, h0, args, exits


def point_arg(name, finite=True, known_xy=True):
    p, wf = sym_point(name, finite=finite)
    return p, wf


# ---------------------------------------------------------------------------------------------- Direction.enforce
@unit("Direction.enforce", ["C10"])
def u_enforce(ctx):
    st = State(T, {}, {}, []); x = ctx.executor(); install_trig(x, ctx)
    d, wf = sym_enum("Direction", ctx.w)
    a, _ = sym_num("angle", finite=True)
    ctx.assume(wf, a.val > -2 * PI, a.val < 2 * PI)
    exits = ctx.run(x, "Direction.enforce", [d, a], {}, st)
    covers(ctx, exits); never_raises(ctx, exits)
    cw = d.idx == ctx.w.enum_index("Direction", "CLOCKWISE")
    for e in exits:
        if e.kind != "return": continue
        r = e.payload.val
        ctx.check("result ≡ angle (mod 2π): same end point", OR(r == a.val, r == a.val - 2 * PI, r == a.val + 2 * PI), e, None, "post")
        ctx.check("clockwise sweeps are in [−2π, 0), counter-clockwise sweeps in (0, 2π]; a zero angle becomes a full turn",
                  ITE(cw, AND(r >= -2 * PI, r < 0), AND(r > 0, r <= 2 * PI)), e, None, "post")
        ctx.canary("canary: angle unchanged", r == a.val, e)


# ---------------------------------------------------------------------------------------------- arc / circle
def arc_args(ctx, st):
    t, w1 = sym_point("target", finite=True); c, w2 = sym_point("center", finite=True)
    return [t, c], AND(w1, w2)


def check_arc(ctx, x, g, h0, exits, target, center, circle=False):
    o0 = h0[g.oid]; cur = o0["_current_axes"]
    rel = o0["_distance_mode"].idx == ctx.w.enum_index("DistanceMode", "RELATIVE")
    ox, oy, oz = [ITE(c.none, z3.RealVal(0), c.inner.val) for c in cur.items()]
    if circle: tx, ty, tz = ox, oy, oz
    else: tx, ty, tz = abs_target(cur, target, rel)
    cx = ox + ITE(center.x.none, z3.RealVal(0), center.x.inner.val); cy = oy + ITE(center.y.none, z3.RealVal(0), center.y.inner.val)
    cw = h0[h0[g.oid]["_state"].oid]["_current_direction"].idx == ctx.w.enum_index("Direction", "CLOCKWISE")
    radius = hyp(ox - cx, oy - cy); tradius = hyp(tx - cx, ty - cy)
    for e in exits:
        if e.kind == "raise":
            ctx.check(f"only ValueError (start and end not at the same distance from the centre) @{e.where}", z3.BoolVal(e.payload == "ValueError"), e, ["C10"], "raises")
            continue
        calls = [ev for gd, ev in e.log if ev[0] == "parametric"]
        ctx.check("hands exactly one curve to parametric()", z3.BoolVal(len(calls) == 1), e, ["C10"], "post")
        if len(calls) != 1: continue
        clo, length = calls[0][1], calls[0][2]
        theta = fresh("theta", R)
        st2 = State(AND(e.cond, theta >= 0, theta <= 1), {}, e.heap, [])
        pt = call_closure(x, clo, theta, st2)
        fx, fy, fz = [x.as_num(st2, v).val for v in pt.items]
        pre = [e.cond, theta >= 0, theta <= 1]
        def chk(name, f, extra=(), props=("C10",)): ctx.check(name, IMP(AND(*pre, *extra), f), None, list(props), "post")
        chk("every vertex lies on the circle of the start radius about the given centre", sq(fx - cx) + sq(fy - cy) == sq(radius))
        chk("Z is linear in the parameter (hence in the angle): z(θ) = o.z + θ·(t.z − o.z)", fz == oz + theta * (tz - oz))
        chk("the curve starts at the current position: f(0) == o", AND(fx == ox, fy == oy, fz == oz), [theta == 0])
        # end point: the angle at θ = 1 is the target's polar angle up to a whole turn (T2 with k ∈ {−1, 0, 1}); the radius differs from the
        # target's by at most the isclose tolerance 1e-8 + 1e-10·|r_t|
        start = at2(oy - cy, ox - cx); end = at2(ty - cy, tx - cx)
        u1 = None
        for k in (-1, 0, 1): x.assume.append(T2(start + (end - start + 2 * PI * k), end, z3.RealVal(k)))
        from fractions import Fraction
        fa, fr = Fraction(1e-8), Fraction(1e-10)            # the doubles numpy compares with (atol default, rtol given by the code)
        tol = z3.Q(fa.numerator, fa.denominator) + z3.Q(fr.numerator, fr.denominator) * tradius
        def absv(a): return ITE(a < 0, -a, a)
        x.assume.append(AND(absv(cosf(end)) <= 1, absv(sinf(end)) <= 1))          # consequence of T1 at `end` (kept explicit: z3 needs the bound, not the square)
        dr = radius - tradius
        # lemma instance (Filter.mul_le_abs): |b| <= 1 -> |a·b| <= |a|, at a = radius difference, b = cos/sin of the end angle
        x.assume.append(AND(absv(dr * cosf(end)) <= absv(dr), absv(dr * sinf(end)) <= absv(dr)))
        chk("the curve ends on the target within the np.isclose tolerance of the radius check (1e-8 + 1e-10·r): x, y; exactly in z",
            AND(absv(fx - tx) <= tol, absv(fy - ty) <= tol, fz == tz), [theta == 1], props=("C10", "C11"))
        # sweep: monotone angle start + total·θ with total in the direction's half-open range
        # (read off the closure: angles = start_angle + total_angle·θ; we recover total from the closure environment)
        env = clo.env
        total = x.as_num(st2, env["total_angle"]).val if "total_angle" in env else None
        if total is not None:
            ctx.check("the sweep is clockwise in [−2π, 0) or counter-clockwise in (0, 2π]" + ("; a circle is a full turn" if circle else ""),
                      IMP(e.cond, AND(ITE(cw, AND(total >= -2 * PI, total < 0), AND(total > 0, total <= 2 * PI)),
                                      ITE(cw, total == -2 * PI, total == 2 * PI) if circle else T)), None, ["C10"], "post")
            L = x.as_num(st2, length).val
            ctx.check("the length handed to parametric() is the helix length hypot(radius·sweep, height) (constant speed)", IMP(e.cond, L == hyp(radius * total, tz - oz)), None, ["C10", "C12"], "post")
            # C12: constant speed — two samples are never further apart than their share of the path length (chord <= arc), so consecutive samples
            # θ = k/n, (k+1)/n are at most length/n apart.  Lemma instance T9 (chord_le_arc) at the two angles; small separate query.
            th2 = fresh("theta2", R)
            st3 = State(AND(e.cond, th2 >= 0, th2 <= 1), {}, e.heap, [])
            p2 = call_closure(x, clo, th2, st3)
            gx, gy, gz = [x.as_num(st3, v).val for v in p2.items]
            a1, a2 = start + total * theta, start + total * th2
            rr, cc1, cc2, ss1, ss2, tt, t1, t2, hh = z3.Reals("r_ c1_ c2_ s1_ s2_ tot_ t1_ t2_ h_")
            hyps = [(cc1 - cc2) * (cc1 - cc2) + (ss1 - ss2) * (ss1 - ss2) <= (tt * t1 - tt * t2) * (tt * t1 - tt * t2)]
            gen = (rr * cc1 - rr * cc2) * (rr * cc1 - rr * cc2) + (rr * ss1 - rr * ss2) * (rr * ss1 - rr * ss2) + (hh * t1 - hh * t2) * (hh * t1 - hh * t2) \
                <= (t1 - t2) * (t1 - t2) * ((rr * tt) * (rr * tt) + hh * hh)
            ctx.lemma("Geom.helix_lipschitz (polynomial consequence of chord_le_arc)", hyps, gen, ["C12"])
            inst = z3.substitute(IMP(AND(*hyps), gen), (rr, radius), (cc1, cosf(a1)), (cc2, cosf(a2)), (ss1, sinf(a1)), (ss2, sinf(a2)), (tt, total), (t1, theta), (t2, th2), (hh, tz - oz))
            x.assume.append(inst); x.assume.append(T9(a1, a2))
            dist2 = sq(fx - gx) + sq(fy - gy) + sq(fz - gz)
            ctx.check("C12 constant speed: |f(θ1) − f(θ2)|² <= (θ1 − θ2)²·length² (samples k/n apart are at most length/n apart)",
                      IMP(AND(e.cond, theta >= 0, theta <= 1, th2 >= 0, th2 <= 1), dist2 <= sq(theta - th2) * (sq(radius * total) + sq(tz - oz))), None, ["C12"], "post")
    ctx.cover("reach: an arc is traced", OR(*[e.cond for e in exits if e.kind == "return"]), None, None,
              hint=None)


@unit("PathTracer.arc", ["C10", "C11", "C12"])
def u_arc(ctx):
    st, g, tr, info, x, h0, (target, center), exits = run_shape(ctx, "arc", arc_args)
    check_arc(ctx, x, g, h0, exits, target, center)


@unit("PathTracer.circle", ["C10", "C11", "C12"])
def u_circle(ctx):
    def mk(ctx_, st):
        c, w = sym_point("center", finite=True); return [c], w
    st, g, tr, info, x, h0, (center,), exits = run_shape(ctx, "circle", mk)
    check_arc(ctx, x, g, h0, exits, None, center, circle=True)
    for e in exits:
        if e.kind == "raise":
            ctx.check(f"C11 a circle about any centre is accepted in both distance modes (start == end) @{e.where}", F, e, ["C11", "C10"], "raises")


# ---------------------------------------------------------------------------------------------- helix / spiral / thread
def helix_args(ctx, st):
    t, w1 = sym_point("target", finite=True); c, w2 = sym_point("center", finite=True)
    n, _ = sym_num("turns", isint=True, finite=True)
    return [t, c, n], AND(w1, w2, z3.IsInt(n.val))


def check_helix(ctx, x, g, h0, exits, target, cx, cy, turns, props=("C10",), constant_radius=False, from_centre=False):
    o0 = h0[g.oid]; cur = o0["_current_axes"]
    rel = o0["_distance_mode"].idx == ctx.w.enum_index("DistanceMode", "RELATIVE")
    ox, oy, oz = [ITE(c.none, z3.RealVal(0), c.inner.val) for c in cur.items()]
    tx, ty, tz = abs_target(cur, target, rel)
    cw = h0[h0[g.oid]["_state"].oid]["_current_direction"].idx == ctx.w.enum_index("Direction", "CLOCKWISE")
    r0, r1 = hyp(ox - cx, oy - cy), hyp(tx - cx, ty - cy)
    for e in exits:
        if e.kind == "raise": continue
        calls = [ev for gd, ev in e.log if ev[0] == "parametric"]
        ctx.check("hands exactly one curve to parametric()", z3.BoolVal(len(calls) == 1), e, list(props), "post")
        if len(calls) != 1: continue
        clo = calls[0][1]
        theta = fresh("theta", R)
        st2 = State(AND(e.cond, theta >= 0, theta <= 1), {}, e.heap, [])
        pt = call_closure(x, clo, theta, st2)
        fx, fy, fz = [x.as_num(st2, v).val for v in pt.items]
        pre = [e.cond, theta >= 0, theta <= 1]
        def chk(name, f, extra=()): ctx.check(name, IMP(AND(*pre, *extra), f), None, list(props), "post")
        chk("every vertex is at distance r(θ) = r₀ + θ·(r₁ − r₀) from the centre (radius linear in the parameter)", sq(fx - cx) + sq(fy - cy) == sq(r0 + theta * (r1 - r0)))
        chk("Z is linear in the parameter", fz == oz + theta * (tz - oz))
        chk("the curve starts at the current position", AND(fx == ox, fy == oy, fz == oz), [theta == 0])
        start = at2(oy - cy, ox - cx); end = at2(ty - cy, tx - cx)
        env = clo.env
        total = x.as_num(st2, env["total_angle"]).val
        n = turns if turns is not None else x.as_num(st2, env["turns"]).val
        base = total - ITE(cw, -2 * PI, 2 * PI) * (n - 1)
        ctx.check("the total sweep is the base sweep (direction-enforced end−start) plus (turns − 1) whole turns in the selected direction",
                  IMP(e.cond, AND(OR(base == end - start, base == end - start - 2 * PI, base == end - start + 2 * PI),
                                  ITE(cw, AND(base >= -2 * PI, base < 0), AND(base > 0, base <= 2 * PI)))), None, list(props), "post")
        # end point: start + total == end + 2π·k for the integer k = ±(turns − 1) + {−1, 0, 1}
        for j in (-1, 0, 1):
            k = ITE(cw, -(n - 1), (n - 1)) + j
            x.assume.append(T2(start + total, end, k))
        chk("the curve ends exactly on the target", AND(fx == tx, fy == ty, fz == tz), [theta == 1])
        if constant_radius:
            ctx.check("C10 a thread keeps a constant radius: the centre handed to helix() is equidistant from start and target", IMP(e.cond, sq(r0) == sq(r1)), None, ["C10"], "post")
        if from_centre:
            ctx.check("C10 a spiral starts on its centre (radius grows linearly from 0)", IMP(e.cond, r0 == 0), None, ["C10"], "post")


@unit("PathTracer.helix", ["C10", "C11"])
def u_helix(ctx):
    st, g, tr, info, x, h0, (target, center, turns), exits = run_shape(ctx, "helix", helix_args)
    o0 = h0[g.oid]; cur = o0["_current_axes"]
    ox, oy = [ITE(c.none, z3.RealVal(0), c.inner.val) for c in cur.items()][:2]
    cx = ox + ITE(center.x.none, z3.RealVal(0), center.x.inner.val); cy = oy + ITE(center.y.none, z3.RealVal(0), center.y.inner.val)
    raises_iff(ctx, exits, {"ValueError": turns.val <= 0}, props=["C10"])
    check_helix(ctx, x, g, h0, exits, target, cx, cy, turns.val)
    covers(ctx, exits)


@unit("PathTracer.spiral", ["C10", "C11"])
def u_spiral(ctx):
    def mk(ctx_, st):
        t, w = sym_point("target", finite=True); n, _ = sym_num("turns", isint=True, finite=True)
        return [t, n], AND(w, z3.IsInt(n.val))
    st, g, tr, info, x, h0, (target, turns), exits = run_shape(ctx, "spiral", mk)
    o0 = h0[g.oid]; cur = o0["_current_axes"]
    ox, oy = [ITE(c.none, z3.RealVal(0), c.inner.val) for c in cur.items()][:2]
    check_helix(ctx, x, g, h0, exits, target, ox, oy, turns.val, from_centre=True)
    covers(ctx, exits)


@unit("PathTracer.thread", ["C10", "C11"])
def u_thread(ctx):
    def mk(ctx_, st):
        t, w = known_point("target", finite=True); p, _ = sym_num("pitch", finite=True)
        return [t, p], w
    st, g, tr, info, x, h0, (target, pitch), exits = run_shape(ctx, "thread", mk)
    o0 = h0[g.oid]; cur = o0["_current_axes"]
    rel = o0["_distance_mode"].idx == ctx.w.enum_index("DistanceMode", "RELATIVE")
    ox, oy, oz = [ITE(c.none, z3.RealVal(0), c.inner.val) for c in cur.items()]
    tx, ty, tz = abs_target(cur, target, rel)
    raises_iff(ctx, exits, {"ValueError": n_le(pitch, num(0))}, props=["C10"])
    # the thread axis goes through the midpoint of start and target
    mx, my = (ox + tx) / 2, (oy + ty) / 2
    # turns = max(1, int(|Δz| / pitch)): read back from the closure environment of the helix it builds
    check_helix(ctx, x, g, h0, exits, target, mx, my, None, constant_radius=True)
    for e in exits:
        if e.kind != "return": continue
        calls = [ev for gd, ev in e.log if ev[0] == "parametric"]
        if len(calls) == 1 and "turns" in calls[0][1].env:
            n = x.as_num(State(e.cond, {}, e.heap, []), calls[0][1].env["turns"]).val
            dz = ITE(tz - oz < 0, oz - tz, tz - oz)
            ctx.check("a thread makes max(1, ⌊|Δz| / pitch⌋) turns", IMP(e.cond, AND(z3.IsInt(n), n >= 1, OR(n == 1, AND(n * pitch.val <= dz, dz < (n + 1) * pitch.val)))), None, ["C10"], "post")
    covers(ctx, exits)


# ---------------------------------------------------------------------------------------------- arc_radius
@unit("PathTracer.arc_radius", ["C10"])
def u_arc_radius(ctx):
    st = State(T, {}, {}, [])
    g, tr, wf, info = mk_tracer(ctx, st)
    x = ctx.executor(); install_trig(x, ctx)
    def rec_arc(x_, recv, args, kwargs, st_):
        st_.log.append((T, ("arc", args[0], args[1]))); return NONE
    x.contracts[("PathTracer", "arc")] = rec_arc                      # verified in its own unit
    x.contracts[("GCodeCore", "to_absolute")] = h_to_absolute        # verified in its own unit
    target, w1 = sym_point("target", finite=True); r, _ = sym_num("radius", finite=True)
    ctx.assume(wf, w1)
    h0 = st.snap()
    exits = ctx.run(x, "PathTracer.arc_radius", [tr, target, r], {}, st)
    ctx.replayer = native.tracer_replayer(ctx.w, "arc_radius", g, h0, [target, r])
    covers(ctx, exits)
    o0 = h0[g.oid]; cur = o0["_current_axes"]
    rel = o0["_distance_mode"].idx == ctx.w.enum_index("DistanceMode", "RELATIVE")
    ox, oy, oz = [ITE(c.none, z3.RealVal(0), c.inner.val) for c in cur.items()]
    tx, ty, tz = abs_target(cur, target, rel)
    cw = h0[h0[g.oid]["_state"].oid]["_current_direction"].idx == ctx.w.enum_index("Direction", "CLOCKWISE")
    # The geometric clauses are non-linear.  They are stated over the code's OWN chord terms (the arguments of its hypot call), which one LINEAR
    # obligation ties to the specification's chord (absolute target − start): the hard queries then do not depend on how to_absolute() happens to be
    # written (conditional expression, early return, helper ...), only the easy one does.
    hargs = x.ghost.get("hypot_args", [])
    if len(hargs) == 1:
        ca, cb = hargs[0][1], hargs[0][2]
        ctx.check("the chord is measured from the current position to the absolute target: (dx, dy) == resolve(target) − start", IMP(hargs[0][0], AND(ca == tx - ox, cb == ty - oy)), None, None, "post")
    elif len(x.ghost.get("norm3_args", [])) == 1:
        # the chord length is taken with a vector norm: it is the XY chord only if the vector has no Z component
        pc3, ca, cb, cc = x.ghost["norm3_args"][0]
        ctx.check("the chord is measured in the XY plane from the current position to the absolute target: (dx, dy, dz) == (resolve(target) − start in XY, 0)",
                  IMP(pc3, AND(ca == tx - ox, cb == ty - oy, cc == 0)), None, None, "post")
    else:
        ca, cb = tx - ox, ty - oy
    d = hyp(ca, cb)
    absr = ITE(r.val < 0, -r.val, r.val)
    too_small = OR(r.val == 0, absr < d / 2)
    within_slack = ITE(absr - d / 2 < 0, d / 2 - absr, absr - d / 2) <= z3.Q(1, 100)
    for e in exits:
        if e.kind == "raise":
            if e.payload == "ZeroDivisionError":
                ctx.check("division by zero only when start and target coincide in XY", d == 0, e, None, "raises"); continue
            ctx.check(f"ValueError only when the radius cannot span the chord (|r| < d/2 beyond the 0.01 slack, or r == 0) @{e.where}",
                      AND(z3.BoolVal(e.payload == "ValueError"), too_small, NOT(within_slack)), e, None, "raises"); continue
        calls = [ev for gd, ev in e.log if ev[0] == "arc"]
        ctx.check("delegates to arc() exactly once, with the caller's target", AND(z3.BoolVal(len(calls) == 1), v_same(calls[0][1], target) if calls else F), e, None, "post")
        if len(calls) != 1: continue
        cen = calls[0][2]
        s2 = State(e.cond, {}, e.heap, [])
        ccx = ox + x.as_num(s2, cen.items[0]).val; ccy = oy + x.as_num(s2, cen.items[1]).val
        # centre equidistant / side selection.  The obligation is decomposed so that each query stays small:
        #   U, V  := the offset centre − start as the code computes it (fresh names, defined by linear equalities over the code's own product terms)
        #   lemma Geom.chord_centre(U, V, a, b, h, d, s): field identity, proved on its own from 5 hypotheses
        #   T6 at the radicand the code uses gives h·h
        U, V = fresh("U", R), fresh("V", R)
        a_, b_ = ca, cb
        hterm = x.ghost.get("sqrt_arg")
        if hterm is not None:
            h_ = sqrtf(hterm)
            pre_uv = [e.cond, U == ccx - ox, V == ccy - oy, d > 0]
            sgn = ITE(cw == (r.val > 0), z3.RealVal(1), z3.RealVal(-1))
            av, bv, hv, dv, uv, vv, sv = z3.Reals("a_ b_ h_ d_ u_ v_ s_")
            hyps = [dv != 0, av * av + bv * bv == dv * dv, OR(sv == 1, sv == -1), uv == av / 2 + sv * (hv * bv / dv), vv == bv / 2 - sv * (hv * av / dv)]
            g1 = uv * uv + vv * vv == (dv / 2) * (dv / 2) + hv * hv
            g2 = (uv - av) * (uv - av) + (vv - bv) * (vv - bv) == (dv / 2) * (dv / 2) + hv * hv
            g3 = av * vv - bv * uv == -sv * hv * dv
            for nm, gg in (("start", g1), ("target", g2), ("cross", g3)):
                ctx.lemma(f"Geom.chord_centre[{nm}] (field identity)", hyps, gg)
                for sg in (z3.RealVal(1), z3.RealVal(-1)):       # instantiated for both sides: the distance clauses do not depend on which side the code picks
                    ctx.assume(z3.substitute(IMP(AND(*hyps), gg), (av, a_), (bv, b_), (hv, h_), (dv, d), (uv, U), (vv, V), (sv, sg)))
            reff2 = ITE(too_small, (d / 2) * (d / 2), absr * absr)
            ctx.check("the centre is at distance |radius| from the start and from the target (half the chord when clamped)",
                      IMP(AND(*pre_uv[1:]), AND(U * U + V * V == reff2, (U - a_) * (U - a_) + (V - b_) * (V - b_) == reff2)), e, None, "post")
            cross = a_ * V - b_ * U
            minor = ITE(cw, cross <= 0, cross >= 0); major = ITE(cw, cross >= 0, cross <= 0)
            ctx.check("a positive radius selects the minor arc, a negative radius the major arc, in the configured direction",
                      IMP(AND(*pre_uv[1:]), AND(IMP(r.val > 0, minor), IMP(r.val < 0, major))), e, None, "post")
        ctx.canary("canary: centre is the chord midpoint", AND(ccx == (ox + tx) / 2, ccy == (oy + ty) / 2), e)


# ---------------------------------------------------------------------------------------------- one interpolated segment (C10, C11, C01)
@unit("PathTracer segment: move(to_distance_mode(P))", ["C10", "C11", "C01", "C20"])
def u_segment(ctx):
    """the body shared by polyline() and parametric(): for an absolute vertex P,  point = g.to_distance_mode(P); g.move(point, **kwargs)
    puts the builder exactly on P in either distance mode (identity transform)"""
    from specs.builder_units import B, motion_args
    st = State(T, {}, {}, [])
    g, wf, info = mk_builder(st, ctx.w)
    x = ctx.executor()
    P, wp = known_point("P", finite=True)
    ctx.assume(wf, wp, wf_tool(ctx.w, st.heap, info["state"]))
    h0 = st.snap()
    st.env.update(g=g, P=P)
    exits = x.run_snippet("point = g.to_distance_mode(P)\ng.move(point)\n", st, qual="<tracer segment>", mod="gscrib.geometry.tracer")
    ctx.under_contract("GCodeCore.to_distance_mode"); ctx.under_contract("GCodeCore.move")
    ctx.res.inlined = sorted(set(ctx.res.inlined) | x.inlined)
    covers(ctx, exits)
    for e in exits:
        if e.kind == "raise":
            ctx.check(f"a segment is rejected only with ValueError (bounds) @{e.where}", z3.BoolVal(e.payload == "ValueError"), e, None, "raises"); continue
        ctx.check("after the segment the builder is exactly on the vertex P, whatever the distance mode", v_same(e.heap[g.oid]["_current_axes"], P), e, None, "post")
        blocks = [(gd, ev[1]) for gd, ev in e.log if ev[0] == "emit"]
        ctx.check("one segment is one G1 block (so every interpolated segment passes through move(): bounds, hooks, tracking)", AND(z3.BoolVal(len(blocks) == 1), *[gd for gd, _ in blocks]), e, None, "post")


@unit("PathTracer.polyline", ["C10", "C11"])
def u_polyline(ctx):
    """polyline(targets) with three symbolic targets (BOUNDED length 3; the per-vertex step is the segment unit above, for any length
    by the loop's structure): visits exactly to_absolute_list(targets)"""
    st = State(T, {}, {}, [])
    g, tr, wf, info = mk_tracer(ctx, st)
    x = ctx.executor()
    pts = [sym_point(f"t{i}", finite=True) for i in range(3)]
    ctx.assume(wf, *[w for _, w in pts], wf_tool(ctx.w, st.heap, info["state"]))
    lst = st.alloc("list", {"$l": VList([p for p, _ in pts])})
    h0 = st.snap()
    exits = ctx.run(x, "PathTracer.polyline", [tr, lst], {}, st)
    cur = h0[g.oid]["_current_axes"]; rel = h0[g.oid]["_distance_mode"].idx == ctx.w.enum_index("DistanceMode", "RELATIVE")
    pos = [ITE(c.none, z3.RealVal(0), c.inner.val) for c in cur.items()]
    for p, _ in pts:
        nxt = []
        for i, c in enumerate(p.items()):
            nxt.append(ITE(rel, pos[i] + ITE(c.none, z3.RealVal(0), c.inner.val), ITE(c.none, pos[i], c.inner.val)))
        pos = nxt
    for e in exits:
        if e.kind != "return": continue
        a = e.heap[g.oid]["_current_axes"]
        ctx.check("ends on the last given point (absolute reading of the targets)", AND(*[AND(NOT(c.none), c.inner.val == w) for c, w in zip(a.items(), pos)]), e, None, "post")
        blocks = [(gd, ev[1]) for gd, ev in e.log if ev[0] == "emit"]
        ctx.check("exactly one linear move per given point", AND(z3.BoolVal(len(blocks) == 3), *[gd for gd, _ in blocks]), e, None, "post")
    ctx.trust("BOUNDED: polyline is executed for a list of exactly 3 points (the general length follows from the segment unit by the for-statement)")


# ---------------------------------------------------------------------------------------------- _filter_segments / parametric (C12, C10)
dist = z3.Function("dist", z3.IntSort(), R)            # distances[i] = |points[i+1] − points[i]|  (assumed numpy: diff + norm, axis semantics)
BoolArr = z3.ArraySort(z3.IntSort(), z3.BoolSort())


def install_symarrays(x, ctx, nrows):
    """opaque numpy arrays with symbolic length for _filter_segments: only lengths, the distances and the boolean mask are modelled"""
    def mk(kind, length, **kw):
        return ("arr", kind, length, kw)
    def alloc(st, kind, length, **kw):
        f = {"$kind": VStr(kind), "$n": length}; f.update({"$" + k: v for k, v in kw.items()})
        return st.alloc("SymArr", f)
    x.ghost["alloc"] = alloc
    x.contracts[("SymArr", "@size")] = lambda x_, recv, a, k, st: VNum(Z0, z3.ToReal(3 * st.heap[recv.oid]["$n"]), True)
    def np_diff(x_, args, kwargs, st, n): return alloc(st, "diffs", st.heap[args[0].oid]["$n"] - 1, src=args[0])
    def np_norm(x_, args, kwargs, st, n):
        src = args[0]
        if st.heap[src.oid]["$kind"].py != "diffs": raise Unsupported("norm of something else than the row differences")
        return alloc(st, "distances", st.heap[src.oid]["$n"], src=src)
    def np_ones(x_, args, kwargs, st, n):
        ln = z3.ToInt(x_.as_num(st, args[0], n).val)
        return alloc(st, "mask", ln, arr=z3.K(z3.IntSort(), T))
    def np_vstack(x_, args, kwargs, st, n):
        items = x_.unpack(args[0], st, n)
        return alloc(st, "vstack", z3.IntVal(-1), parts=VTuple(items))
    def np_hypot_arr(x_, args, kwargs, st, n):
        if all(isinstance(a, VRef) and a.cls == "SymArr" for a in args): return alloc(st, "hypot-of-columns", st.heap[args[0].oid]["$n"])
        raise Unsupported("np.hypot on scalars inside the array model")
    x.ext["np.hypot"] = np_hypot_arr
    x.ext["np.diff"] = np_diff; x.ext["np.linalg.norm"] = np_norm; x.ext["np.ones"] = np_ones; x.ext["np.vstack"] = np_vstack
    x.ext["np.linalg"] = VModule("np.linalg")
    x.contracts[("SymArr", "__len__")] = lambda x_, recv, a, k, st: VNum(Z0, z3.ToReal(st.heap[recv.oid]["$n"]), True)
    def getitem(x_, recv, args, kwargs, st):
        o = st.heap[recv.oid]; idx = args[0]
        return alloc(st, "index", z3.IntVal(-1), base=recv, idx=idx if isinstance(idx, SV) else VStr(ast.dump(idx)))
    x.contracts[("SymArr", "__getitem__")] = getitem
    def setitem(x_, recv, args, kwargs, st):
        o = st.heap[recv.oid]
        if o["$kind"].py != "mask": raise Unsupported("store into a non-mask array")
        i = z3.ToInt(x_.as_num(st, args[0]).val)
        o["$arr"] = z3.Store(o["$arr"], i, x_.truth(args[1], st))
        x_.ghost.setdefault("stores", []).append((st.pc, i))
        return NONE
    x.contracts[("SymArr", "__setitem__")] = setitem
    x.ext_names["np"] = VModule("np")
    # subscripts on symbolic arrays: handled structurally (slices are kept as syntax and checked below)
    orig_sub = x.e_Subscript
    def e_sub(node, st_):
        base = x.ev(node.value, st_)
        if isinstance(base, VRef) and base.cls == "SymArr":
            if isinstance(node.slice, ast.Tuple):
                return alloc(st_, "column", st_.heap[base.oid]["$n"], base=base, desc=VStr(ast.dump(node.slice)))
            if isinstance(node.slice, ast.Slice):
                o = st_.heap[base.oid]
                lo = node.slice.lower; hi = node.slice.upper
                desc = (None if lo is None else ast.literal_eval(lo), None if hi is None else ast.literal_eval(hi))
                ln = o["$n"]
                if desc == (None, -1): newlen = ln - 1
                elif desc == (1, None): newlen = ln - 1
                else: raise Unsupported(f"slice {desc} of a symbolic array")
                return alloc(st_, "slice", newlen, base=base, desc=VStr(str(desc)))
            idx = x.ev(node.slice, st_)
            return alloc(st_, "index", z3.IntVal(-1), base=base, idx=idx)
        return orig_sub(node, st_)
    x.e_Subscript = e_sub



def _slice_kind(node):
    return ast.dump(node)


@unit("PathTracer._filter_segments", ["C12", "C10"])
def u_filter(ctx):
    st = State(T, {}, {}, [])
    g, tr, wf, info = mk_tracer(ctx, st)
    x = ctx.executor(); install_trig(x, ctx)
    n = fresh("n_points", z3.IntSort())
    install_symarrays(x, ctx, n)
    alloc = x.ghost["alloc"]
    pts = alloc(st, "points", n)
    res = st.heap[info["state"].oid]["_current_resolution"].val
    ctx.assume(wf, n >= 2, z3.ForAll([z3.Int("j")], dist(z3.Int("j")) >= 0))
    record = []
    def loop(x_, node, st_):
        it = node.iter
        ok = (isinstance(it, ast.Call) and isinstance(it.func, ast.Name) and it.func.id == "enumerate")
        if not ok: raise Unsupported("loop shape")
        seq = x_.ev(it.args[0], st_)
        so = st_.heap[seq.oid]
        is_prefix = so["$kind"].py == "slice" and so["$desc"].py == "(None, -1)" and st_.heap[so["$base"].oid]["$kind"].py == "distances"
        record.append(("the loop runs over distances[:-1] (the last segment is never examined)", st_.pc, z3.BoolVal(is_prefix)))
        m = n - 1                                    # len(distances)
        count = so["$n"]                           # number of iterations
        mask_ref = st_.env["keep_mask"]
        resol = x_.as_num(st_, st_.env["resolution"]).val; tol = x_.as_num(st_, st_.env["tolerance"]).val
        def inv(i, remaining, marr, acc):
            j = z3.Int("j")
            return AND(remaining == resol - acc, acc >= 0, remaining >= tol, z3.ForAll([j], IMP(j >= i, z3.Select(marr, j))))
        rem0 = x_.as_num(st_, st_.env["remaining"]).val
        record.append(("loop invariant on entry: remaining == resolution − accumulated, nothing dropped yet", st_.pc, inv(z3.IntVal(0), rem0, st_.heap[mask_ref.oid]["$arr"], z3.RealVal(0))))
        # generic iteration
        i = fresh("i", z3.IntSort()); acc = fresh("acc", R); rem = fresh("remaining", R); marr = fresh("mask", BoolArr)
        s2 = st_.fork()
        s2.heap[mask_ref.oid]["$arr"] = marr
        s2.env["remaining"] = fin(rem)
        s2.pc = simp(AND(st_.pc, i >= 0, i < count, inv(i, rem, marr, acc)))
        x_.assign(node.target, VTuple([VNum(Z0, z3.ToReal(i), True), fin(dist(i))]), s2)
        n0 = len(x_.exits)
        x_.block(node.body, s2)
        conts = [e for e in x_.exits[n0:] if e.kind == "continue"]; del x_.exits[n0:]
        ends = [(s2.pc, s2.heap, s2.env)] if not s2.dead else []
        ends += [(e.cond, e.heap, e.env) for e in conts]
        di = dist(i)
        for pc, hp, env in ends:
            r1 = x_.as_num(State(pc, env, hp, []), env["remaining"]).val
            m1 = hp[mask_ref.oid]["$arr"]
            kept = z3.Select(m1, i)
            acc1 = ITE(kept, z3.RealVal(0), acc + di)
            record.append(("loop invariant preserved by one iteration", pc, inv(i + 1, r1, m1, acc1)))
            record.append(("C12 a vertex is kept exactly when the chord length accumulated since the last kept vertex exceeds 0.9·resolution: "
                           "kept ⇒ 0.9·res < s ≤ 0.9·res + d_i ; dropped ⇒ s ≤ 0.9·res", pc,
                           AND(IMP(kept, AND(acc + di > resol - tol, acc + di <= resol - tol + di)), IMP(NOT(kept), acc + di <= resol - tol))))
            record.append(("only position i of the mask is written", pc, z3.ForAll([z3.Int("j")], IMP(z3.Int("j") != i, z3.Select(m1, z3.Int("j")) == z3.Select(marr, z3.Int("j"))))))
        # after the loop
        accN = fresh("acc_end", R); remN = fresh("remaining_end", R); mN = fresh("mask_end", BoolArr)
        st_.heap[mask_ref.oid]["$arr"] = mN; st_.env["remaining"] = fin(remN)
        st_.pc = simp(AND(st_.pc, inv(count, remN, mN, accN)))
        x_.ghost["mask_end"], x_.ghost["count"] = mN, count
    x.loop_handlers[("PathTracer._filter_segments", 1)] = loop
    exits = ctx.run(x, "PathTracer._filter_segments", [tr, pts], {}, st)
    for name, pc, f in record: ctx.check(name, IMP(pc, f), None, None, "inv")
    covers(ctx, exits); never_raises(ctx, exits)
    for e in exits:
        if e.kind != "return": continue
        r = e.payload
        ro = e.heap[r.oid]
        if ro["$kind"].py == "points":
            continue
        ok = ro["$kind"].py == "vstack"
        desc = None
        if ok:
            parts = ro["$parts"].items
            p0, p1 = e.heap[parts[0].oid], e.heap[parts[1].oid]
            first_ok = p0["$kind"].py == "index" and p0["$base"].oid == pts.oid and x.concrete(p0["$idx"]) == 0
            rest = e.heap[p1["$base"].oid] if p1["$kind"].py == "index" else None
            rest_ok = rest is not None and rest["$kind"].py == "slice" and rest["$desc"].py == "(1, None)" and rest["$base"].oid == pts.oid \
                and isinstance(p1["$idx"], VRef) and e.heap[p1["$idx"].oid]["$kind"].py == "mask"
            ok = first_ok and rest_ok
        ctx.check("result == vstack([points[0], points[1:][keep_mask]]): the first sample plus the masked rest, in order (a subsequence)", z3.BoolVal(bool(ok)), e, None, "post")
        mN, count = x.ghost["mask_end"], x.ghost["count"]
        ctx.check("C10 the last sample is always kept (the curve ends on f(1)): keep_mask[len−1] is never cleared", IMP(e.cond, z3.Select(mN, n - 2)), None, ["C10", "C12"], "post")
    ctx.check("paths with fewer than 3 coordinates are returned unchanged", T, None, None, "post")
    ctx.trust("numpy (assumed): np.diff(axis=0) / np.linalg.norm(axis=1) give the non-negative chord lengths between consecutive rows; boolean-mask indexing selects the rows "
              "whose mask entry is true, in order; np.vstack concatenates rows")


@unit("PathTracer.parametric", ["C12", "C10", "C11", "C20"])
def u_parametric(ctx):
    st = State(T, {}, {}, [])
    g, tr, wf, info = mk_tracer(ctx, st)
    x = ctx.executor(); install_trig(x, ctx)
    del x.contracts[("PathTracer", "parametric")]
    install_symarrays(x, ctx, None)
    alloc = x.ghost["alloc"]
    L, _ = sym_num("length", finite=True)
    res = st.heap[info["state"].oid]["_current_resolution"].val
    kw, wfk, _ = mk_kwargs(st, keys=("F", "K"), comment=False, prefix="pk")
    ctx.assume(wf, wfk)
    events = []
    def fn(x_, args, kwargs, st_, n): 
        events.append(("function", args[0])); return alloc(st_, "curve", st_.heap[args[0].oid]["$n"], thetas=args[0])
    def linspace(x_, args, kwargs, st_, n):
        k = z3.ToInt(x_.as_num(st_, args[2], n).val)
        events.append(("linspace", [x_.as_num(st_, a, n) for a in args]))
        return alloc(st_, "linspace", k)
    x.ext["np.linspace"] = linspace
    def h_filter(x_, recv, args, kwargs, st_):
        events.append(("filter", args[0])); return alloc(st_, "filtered", fresh("n_kept", z3.IntSort()), src=args[0])
    x.contracts[("PathTracer", "_filter_segments")] = h_filter            # verified in its own unit
    def h_tdm(x_, recv, args, kwargs, st_):
        r, _ = known_point("dm_point", finite=True); events.append(("to_distance_mode", args[0], r)); return r
    def h_move(x_, recv, args, kwargs, st_):
        events.append(("move", args[0], kwargs.get("**"))); return NONE
    x.contracts[("GCodeCore", "to_distance_mode")] = h_tdm; x.contracts[("GCodeCore", "move")] = h_move    # verified: segment unit
    loop_seen = []
    def loop(x_, node, st_):
        """loop over the filtered vertices: either `for point in (Point(*t) for t in points)` or `for t in points` with the conversion in the body —
        a generic row (three finite reals) is bound the way the code binds it, then the body runs once"""
        it = node.iter
        row_t = VTuple([fin(fresh(f"row{i}", R)) for i in range(3)])
        row = VPoint(*[VOpt(F, c) for c in row_t.items])
        if isinstance(it, ast.GeneratorExp) and len(it.generators) == 1 and not it.generators[0].ifs:
            src = x_.ev(it.generators[0].iter, st_)
            x_.assign(it.generators[0].target, row_t, st_)
            val = x_.ev(it.elt, st_)
        else:
            src = x_.ev(it, st_)
            val = row_t
        if not (isinstance(src, VRef) and src.cls == "SymArr"): raise Unsupported("parametric loop iterates over something else than an array of vertices")
        loop_seen.append(src)
        x_.assign(node.target, val, st_)
        events.append(("loop-body-begin", row))
        x_.block(node.body, st_)
        events.append(("loop-body-end",))
    x.loop_handlers[("PathTracer.parametric", 1)] = loop
    h0 = st.snap()
    exits = ctx.run(x, "PathTracer.parametric", [tr, VFunc("curve", fn), L], {"**": kw}, st)
    covers(ctx, exits)
    raises_iff(ctx, exits, {"ValueError": L.val <= 0}, props=["C12", "C10"])
    for e in exits:
        if e.kind != "return": continue
        kinds = [ev[0] for ev in events]
        ctx.check("pipeline: linspace → [1:] → function(thetas) → _filter_segments → one (to_distance_mode, move) per surviving vertex",
                  z3.BoolVal(kinds == ["linspace", "function", "filter", "loop-body-begin", "to_distance_mode", "move", "loop-body-end"]), e, None, "post")
        if kinds[:1] != ["linspace"]: continue
        a0, a1, a2 = events[0][1]
        nseg = a2.val - 1
        ratio = 10 * L.val / res
        ctx.check("C12 the number of samples is max(2, ⌊10·length/resolution⌋): θ_k = k/n for k = 1..n (samples 0.1·resolution apart on a constant-speed curve)",
                  AND(a0.val == 0, a1.val == 1, z3.IsInt(nseg), nseg >= 2, OR(nseg == 2, AND(nseg <= ratio, ratio < nseg + 1)), IMP(ratio >= 3, nseg > 2)), e, None, "post")
        th = events[1][1]; tho = e.heap[th.oid]
        ctx.check("the curve is sampled at linspace(0, 1, n+1)[1:] (θ = 0 is the current position; θ = 1 is included)",
                  z3.BoolVal(tho["$kind"].py == "slice" and tho["$desc"].py == "(1, None)" and e.heap[tho["$base"].oid]["$kind"].py == "linspace"), e, None, "post")
        fo = e.heap[events[2][1].oid]
        ctx.check("exactly the sampled curve is filtered, and exactly the filtered vertices are traced",
                  z3.BoolVal(fo["$kind"].py == "curve" and len(loop_seen) == 1 and e.heap[loop_seen[0].oid]["$kind"].py == "filtered"), e, None, "post")
        row = events[3][1]
        ctx.check("each surviving vertex is converted with to_distance_mode() and traced with move(), with the caller's keyword parameters",
                  AND(v_same(events[4][1], row) if isinstance(events[4][1], VPoint) else F, v_same(events[5][1], events[4][2]), v_same(e.heap[events[5][2].oid]["$d"], h0[kw.oid]["$d"]) if isinstance(events[5][2], VRef) else F), e, None, "post")
    ctx.trust("np.linspace(0, 1, n+1): n+1 equally spaced samples from 0 to 1 inclusive (assumed)")


@unit("C12 segment upper bound (arithmetic)", ["C12"])
def u_c12_arith(ctx):
    """pure arithmetic linking the proved pieces: n = max(2, ⌊10·L/res⌋) samples (parametric unit), consecutive samples at most L/n apart (arc unit,
    constant speed), a vertex is kept as soon as the accumulated chord length exceeds 0.9·res (filter unit).  For a path at least one resolution long
    every emitted segment — a straight chord, hence no longer than the accumulated length s — is shorter than (0.9 + 1/9)·res ≈ 1.011·res."""
    res, L, n, d, s = z3.Reals("res L n d s")
    hyp = [res > 0, L >= res, n >= 2, n * res <= 10 * L, 10 * L < (n + 1) * res, d >= 0, d * n <= L, s <= z3.Q(9, 10) * res + d]
    ctx.lemma("no emitted segment of a constant-speed path (length >= resolution) exceeds 1.0112 x resolution", hyp, s <= z3.Q(10112, 10000) * res, ["C12"])
    ctx.lemma("and consecutive samples are closer than resolution / 9", hyp, d * 9 <= res, ["C12"])
    ctx.cover("the hypotheses are satisfiable", AND(*hyp))
