"""Reference modal interpreter over abstract blocks (DESIGN §3.3) for C02, C03, C07 and the safety predicate of C02.

Meanings of the instruction words are the standard RS-274 / Marlin ones named in the property statements; they are
written here as literals, independently of gscrib's own enum->instruction table (which is read from the source by AST
on the code side: a swapped table entry makes the two sides disagree and fails the mirror obligations)."""
import z3
from pyvc.values import *
from specs.common import words_of, AXES
from specs.ghost import cmd_is, LINEAR, PROBE, TOOL_START, COOLANT_START, GUARDED_HALT, emitted

S_STR = z3.StringSort()


class Modal:
    FIELDS = ("tool_on", "start", "S", "coolant_on", "coolant", "T", "F", "dist", "ext", "feedmode", "units", "plane",
              "bed", "hotend", "chamber", "rem")

    def __init__(self, **kw): self.__dict__.update(kw)
    def copy(self): return Modal(**{k: (dict(v) if isinstance(v, dict) else v) for k, v in self.__dict__.items()})


def _w(stmt, L):
    for l, g, v in words_of(stmt.params):
        if l == L: return g, v
    return F, None


def _upd(cond, new, old):
    cond = simp(cond)
    if z3.is_false(cond): return old
    if isinstance(old, SV): return merge(cond, new, old)
    return ITE(cond, new, old)


def cmd_term(stmt):
    if len(stmt.cmds) != 1: return z3.StringVal("")
    return stmt.cmds[0].z()


def modal_step(ms, g, s):
    """modal state after executing block s (if g)"""
    n = ms.copy()
    c = cmd_term(s)
    bare = z3.BoolVal(len(s.cmds) == 0)
    start = cmd_is(s, *TOOL_START)
    n.tool_on = _upd(AND(g, start), T, _upd(AND(g, cmd_is(s, "M05")), F, ms.tool_on))
    n.start = _upd(AND(g, start), c, ms.start)
    pS, vS = _w(s, "S")
    if vS is not None:
        motion = OR(cmd_is(s, *LINEAR), cmd_is(s, *PROBE))
        n.S = _upd(AND(g, pS, OR(bare, start, motion)), vS, ms.S)
        n.hotend = _upd(AND(g, pS, cmd_is(s, "M104", "M109")), vS, ms.hotend)
        n.bed = _upd(AND(g, pS, cmd_is(s, "M140", "M190")), vS, ms.bed)
        n.chamber = _upd(AND(g, pS, cmd_is(s, "M141", "M191")), vS, ms.chamber)
    pR, vR = _w(s, "R")
    if vR is not None:
        pS_ = pS if vS is not None else F
        n.hotend = _upd(AND(g, pR, NOT(pS_), cmd_is(s, "M109")), vR, n.hotend)
        n.bed = _upd(AND(g, pR, NOT(pS_), cmd_is(s, "M190")), vR, n.bed)
        n.chamber = _upd(AND(g, pR, NOT(pS_), cmd_is(s, "M191")), vR, n.chamber)
    pF, vF = _w(s, "F")
    if vF is not None:
        n.F = _upd(AND(g, pF, OR(bare, cmd_is(s, *LINEAR), cmd_is(s, *PROBE))), vF, ms.F)
    pT, vT = _w(s, "T")
    if vT is not None:
        n.T = _upd(AND(g, pT, cmd_is(s, "M06")), vT, ms.T)
    con = cmd_is(s, *COOLANT_START)
    n.coolant_on = _upd(AND(g, con), T, _upd(AND(g, cmd_is(s, "M09")), F, ms.coolant_on))
    n.coolant = _upd(AND(g, OR(con, cmd_is(s, "M09"))), c, ms.coolant)
    n.dist = _upd(AND(g, cmd_is(s, "G90", "G91")), c, ms.dist)
    n.ext = _upd(AND(g, cmd_is(s, "M82", "M83")), c, ms.ext)
    n.feedmode = _upd(AND(g, cmd_is(s, "G93", "G94", "G95")), c, ms.feedmode)
    n.units = _upd(AND(g, cmd_is(s, "G20", "G21")), c, ms.units)
    n.plane = _upd(AND(g, cmd_is(s, "G17", "G18", "G19")), c, ms.plane)
    remcmd = OR(cmd_is(s, *LINEAR), cmd_is(s, *PROBE), cmd_is(s, "G92", "G28"))
    for k in list(ms.rem):
        if k in AXES: continue
        p, v = _w(s, k)
        if v is not None: n.rem[k] = _upd(AND(g, p, remcmd), as_opt(v), ms.rem[k])
    return n


def unsafe(ms, g, s):
    """C02: block s (emitted under g in modal state ms) is one the interlocks must never let out"""
    return AND(g, OR(AND(cmd_is(s, *TOOL_START), ms.tool_on),
                     AND(cmd_is(s, *COOLANT_START), ms.coolant_on),
                     AND(cmd_is(s, *GUARDED_HALT), OR(ms.tool_on, ms.coolant_on))))


# instruction words as the statement of C07 names them, per enum member (independent literal table)
CODES = {
    "SpinMode": {"CLOCKWISE": "M03", "COUNTER": "M04", "OFF": "M05"},
    "PowerMode": {"CONSTANT": "M03", "DYNAMIC": "M04", "OFF": "M05"},
    "CoolantMode": {"FLOOD": "M08", "MIST": "M07", "OFF": "M09"},
    "DistanceMode": {"ABSOLUTE": "G90", "RELATIVE": "G91"},
    "ExtrusionMode": {"ABSOLUTE": "M82", "RELATIVE": "M83"},
    "FeedMode": {"INVERSE_TIME": "G93", "UNITS_PER_MINUTE": "G94", "UNITS_PER_REVOLUTION": "G95"},
    "LengthUnits": {"INCHES": "G20", "MILLIMETERS": "G21"},
    "Plane": {"XY": "G17", "ZX": "G18", "YZ": "G19"},
}


def code_of(world, e):
    """z3 String: the instruction word the statement associates with enum value e"""
    tab = CODES[e.cls]
    members = world.enum_members(e.cls)
    t = z3.StringVal("?")
    for i, (name, _) in reversed(list(enumerate(members))):
        t = ITE(e.idx == i, z3.StringVal(tab.get(name, "?" + name)), t)
    return simp(t)


def modal_of_state(world, heap, sref, pref, keys):
    """the modal state an interpreter would be in if the mirror relation holds for builder state (heap, sref)"""
    o = heap[sref.oid]
    off_s = o["_current_spin_mode"].idx == world.enum_index("SpinMode", "OFF")
    start = ITE(NOT(off_s), code_of(world, o["_current_spin_mode"]), code_of(world, o["_current_power_mode"]))
    d = heap[pref.oid]["$d"]
    rem = {k: merge(simp(d.present[k]), as_opt(d.vals[k]), VOpt(T, as_opt(d.vals[k]).inner)) for k in keys if k in d.present}
    return Modal(tool_on=o["_is_tool_active"].t, start=start, S=o["_current_tool_power"], coolant_on=o["_is_coolant_active"].t,
                 coolant=code_of(world, o["_current_coolant_mode"]), T=o["_current_tool_number"], F=o["_current_feed_rate"],
                 dist=code_of(world, o["_current_distance_mode"]), ext=code_of(world, o["_current_extrusion_mode"]),
                 feedmode=code_of(world, o["_current_feed_mode"]), units=code_of(world, o["_current_length_units"]),
                 plane=code_of(world, o["_current_plane"]), bed=o["_target_bed_temperature"], hotend=o["_target_hotend_temperature"],
                 chamber=o["_target_chamber_temperature"], rem=rem)


def mirror_clauses(world, ms, heap, sref, pref):
    """C07 field by field: name -> formula (state reports what the interpreter derived)"""
    o = heap[sref.oid]
    now = modal_of_state(world, heap, sref, pref, list(ms.rem))
    cl = {
        "tool-active": now.tool_on == ms.tool_on,
        "tool-start-code": IMP(ms.tool_on, now.start == ms.start),
        "tool-power": IMP(ms.tool_on, v_same(now.S, ms.S)),
        "coolant-active": now.coolant_on == ms.coolant_on,
        "coolant-mode": now.coolant == ms.coolant,
        "tool-number": v_same(now.T, ms.T),
        "feed-rate": v_same(now.F, ms.F),
        "distance-mode": now.dist == ms.dist, "extrusion-mode": now.ext == ms.ext, "feed-mode": now.feedmode == ms.feedmode,
        "length-units": now.units == ms.units, "plane": now.plane == ms.plane,
        "bed-temperature": v_same(now.bed, ms.bed), "hotend-temperature": v_same(now.hotend, ms.hotend),
        "chamber-temperature": v_same(now.chamber, ms.chamber),
    }
    for k in ms.rem:
        if k in AXES or k not in now.rem: continue
        cl[f"remembered[{k}]"] = v_same(now.rem[k], ms.rem[k])
    return cl


def run_modal(ms, log, start=0, on_block=None):
    for g, s in emitted(log, start):
        if on_block is not None: on_block(ms, g, s)
        ms = modal_step(ms, g, s)
    return ms
