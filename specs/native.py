"""Native-oracle replayers for units whose symbolic exits mention uninterpreted functions or loop-contract states (no exit-by-exit
differential is possible there): the inputs of the verifier's counter-model are turned into real objects, the REAL function is run
on the same tree the VCs came from, and the property clause is evaluated on what really happened by plain python code.

    reproduced True   the real code, on the model's input, breaks the clause (the input is reported in the replay file)
    reproduced False  the real run satisfies the clause on this input: the counter-model lives in the freedom of an assumed contract
                      or of a loop-contract state; the obligation is still reported (…no-failing-input-found)
Covers are not replayed by these harnesses (they return None)."""
import sys, io
from pyvc import vc
from pyvc.values import *
from pyvc.world import REPO
from specs.harness import call_real, jsonable

if REPO not in sys.path: sys.path.insert(0, REPO)

LINE_BREAKS = "\n\r\x0b\x0c\x1c\x1d\x1e\x85  "


def py_str(model, v):
    s = vc.concretize(model, v)
    return s if isinstance(s, str) else str(s)


def py_bytes(model, v):
    """bytes are modelled as z3 strings of code units (A-str); a model using code units above 255 has no byte string"""
    s = py_str(model, v)
    try: return s.encode("latin-1")
    except UnicodeEncodeError: return None


# ---------------------------------------------------------------------------------------------- C09 / C08: comment()
def confined_native(style, close, c):
    bad = []
    if not c.startswith(style): bad.append("does not start with the opening symbol")
    if any(ch in c for ch in LINE_BREAKS): bad.append("contains a line break")
    if close:
        i = c.find(close, len(style))
        if i != len(c) - len(close): bad.append(f"closing symbol {close!r} occurs at {i}, not only at the end ({len(c) - len(close)})")
    return bad


def comment_replayer(style, close, text_v):
    def rp(model, obl, cover):
        if cover: return None
        from gscrib.formatters.default_formatter import DefaultFormatter
        text = py_str(model, text_v)
        f = DefaultFormatter(); f.set_comment_symbols(style)
        out = call_real(f.comment, [text], {})
        info = {"call": f"DefaultFormatter(comment symbols {style!r}).comment({text!r})", "observed": [out[0], out[1] if out[0] == "return" else f"{out[1]}: {out[2]}"]}
        if out[0] == "raise":
            info["reproduced"] = True; info["detail"] = "comment() raised on a plain string"
            return info
        bad = confined_native(style, close, out[1])
        info["reproduced"] = bool(bad); info["detail"] = "; ".join(bad) or "the real result is confined on the model's input (the counter-model lives in the freedom of an assumed string contract)"
        if not bad:
            # the model's text is not a failing input: look for one natively among a fixed list of hostile texts built from the style's symbols
            cl = close or ""
            cands = ["a\nb", "a\rb", "a\r\nb", "a\x0bb", "a\x0cb", "a\x1cb", "a\x85b", "a\u2028b", "a\u2029b", "\n", "a\n", "\nG1 X0"]
            if cl:
                cands += [cl, cl + cl, "a" + cl + "b", "a " + cl + " b", " " + cl, cl + " ", cl[:1] + cl + cl[1:], cl[:1] * 2 + cl[1:] * 2, cl + "\n" + cl, "a" + cl + "\nG1 X0"]
                if len(cl) > 1: cands += [cl[0] + " " + cl[1:], cl[0] + "\n" + cl[1:], cl[0] + cl + cl[1:] + cl]
            for t in cands:
                o2 = call_real(f.comment, [t], {})
                b2 = ["raised " + str(o2[1])] if o2[0] == "raise" else confined_native(style, close, o2[1])
                if b2:
                    info.update(call=f"DefaultFormatter(comment symbols {style!r}).comment({t!r})", observed=[o2[0], o2[1]], reproduced=True,
                                detail="; ".join(b2) + "  [failing input found by a native search over a fixed hostile-text list after the solver's own model did not reproduce]")
                    break
        return info
    return rp


# ---------------------------------------------------------------------------------------------- C17: socket line splitting
class _ScriptedSocket:
    def __init__(self, script): self.script, self.i, self.received, self.eof, self.calls = script, 0, b"", False, []
    def read(self, n):
        if self.i >= len(self.script): r = None
        else:
            kind, data = self.script[self.i]; self.i += 1
            if kind == "oserror": self.calls.append("read -> OSError"); raise OSError("scripted")
            r = None if kind == "again" else data[:n]
        self.calls.append(f"read({n}) -> {r!r}")
        if r is not None:
            self.received += r
            if r == b"": self.eof = True
        return r


class _ScriptedSelector:
    def __init__(self, answers): self.answers, self.i = answers, 0
    def select(self, timeout=None):
        a = self.answers[self.i] if self.i < len(self.answers) else False
        self.i += 1
        return [object()] if a else []


def device_replayer(method, dev, start_heaps, scripts, seg_of, cat_of=None):
    """start_heaps: [(exit-set or None, heap)] the state a native run starts from for the exits of that segment (function entry, or the head
    of the contracted loop);  scripts: {segment index: [("read", again, chunk, oserror) | ("select", ready)]} in program order"""
    def rp(model, obl, cover):
        if cover and (obl.exit is None or cat_of is None): return None
        from gscrib.printrun.device import Device
        seg = seg_of(obl)
        heap = start_heaps[seg][1]
        items = heap[heap[dev.oid]["_read_buffer"].oid]["$l"].items
        chunks = []
        for it in items:
            if isinstance(it, tuple):
                if not vc.c_bool(model, it[1]): continue
                it = it[2]
            b = py_bytes(model, as_opt(it).inner)
            if b is None: return {"reproduced": None, "detail": "the model uses code units above 255: no byte string to replay"}
            chunks.append(b)
        chunks = [c for c in chunks if c]              # [P, L] stands for (join of the earlier chunks, last chunk): an empty P is "no earlier chunk"
        reads, sels = [], []
        for ev in scripts.get(seg, []):
            if ev[0] == "read":
                if vc.c_bool(model, ev[3]): reads.append(("oserror", None))
                elif vc.c_bool(model, ev[1]): reads.append(("again", None))
                else:
                    b = py_bytes(model, VStr(None, ev[2]))
                    if b is None: return {"reproduced": None, "detail": "the model uses code units above 255: no byte string to replay"}
                    reads.append(("data", b))
            else: sels.append(vc.c_bool(model, ev[1]))
        d = Device.__new__(Device)
        d._read_buffer = list(chunks); d._is_connected = True; d._timeout = 0.25; d._hostname = "host"; d._port_number = 23
        sock = _ScriptedSocket(reads); d._socketfile = sock; d._selector = _ScriptedSelector(sels)
        B0 = b"".join(chunks)
        out = call_real(getattr(d, method), [], {})
        info = {"call": f"Device.{method}() with _read_buffer={chunks!r}, scripted socket {[(k, v) for k, v in reads]!r}, selector {sels!r}"
                        + ("  [state at the head of the contracted loop]" if seg else ""),
                "socket_calls": sock.calls, "observed": [out[0], repr(out[1]) if out[0] == "return" else f"{out[1]}: {out[2]}"], "buffer_after": repr(d._read_buffer)}
        if cover:
            # engine self-check: the real outcome on the model of this exit must be the symbolic exit (kind, result bytes, buffer content, connection flag)
            e = obl.exit; dis = []
            if out[0] != e.kind: dis.append(f"outcome: symbolic {e.kind} real {out[0]}")
            elif e.kind == "raise":
                if out[1] != e.payload: dis.append(f"exception: symbolic {e.payload} real {out[1]}")
            else:
                exp = vc.concretize(model, e.payload, e.heap)
                expb = None if exp is None else (exp.encode("latin-1", "replace") if isinstance(exp, str) else exp)
                if expb != out[1]: dis.append(f"result: symbolic {expb!r} real {out[1]!r}")
            expbuf = vc.zstr_py(vc.mval(model, cat_of(e.heap)).as_string()).encode("latin-1", "replace")
            if expbuf != b"".join(d._read_buffer): dis.append(f"buffer: symbolic {expbuf!r} real {b''.join(d._read_buffer)!r}")
            if vc.c_bool(model, e.heap[dev.oid]["_is_connected"].t) != bool(d._is_connected): dis.append("connection flag differs")
            info.update(agrees=not dis, detail="; ".join(dis), symbolic_exit=f"{e.kind}@{e.where}")
            return info
        bad = []
        total = B0 + sock.received
        if out[0] == "raise":
            if out[1] != "DeviceError": bad.append(f"{out[1]} escapes")
            elif d._is_connected: bad.append("DeviceError raised but the device is still marked connected")
        else:
            r = out[1]; rest = b"".join(d._read_buffer)
            if r is None:
                if not (sock.eof and total == b"" and rest == b""): bad.append("READ_EOF although bytes were pending or the peer had not closed")
                if d._is_connected: bad.append("READ_EOF but still marked connected")
            else:
                if total != r + rest: bad.append(f"bytes lost, duplicated or reordered: buffered+received {total!r} != result {r!r} + buffer {rest!r}")
                if r:
                    is_line = r.endswith(b"\n") and b"\n" not in r[:-1]
                    tail = sock.eof and b"\n" not in r and rest == b""
                    if not (is_line or tail): bad.append(f"result {r!r} is neither one complete line nor the unterminated tail at end of stream")
                elif b"\n" in total or sock.eof: bad.append("READ_EMPTY although a complete line was available or the peer had closed")
                if not d._is_connected: bad.append("marked disconnected without READ_EOF")
                if any(b"\n" in c for c in d._read_buffer[:-1]) or any(c == b"" for c in d._read_buffer): bad.append("buffer invariant broken (newline in an earlier chunk or empty chunk)")
        info["reproduced"] = bool(bad); info["detail"] = "; ".join(bad) or "the real run satisfies the clauses of C17 on this input"
        return info
    return rp


# ---------------------------------------------------------------------------------------------- C13: context managers
def cm_replayer(world, name, with_src, body_src, tr, h0, info, flag):
    def rp(model, obl, cover):
        if cover: return None
        import numpy as np
        from gscrib.gcode_core import GCodeCore
        from specs.harness import _real_transform, _obs_transform
        g = GCodeCore()
        real = g._transformer if hasattr(g, "_transformer") else g.transform
        o = h0[tr.oid]
        real._current_transform = _real_transform(world, model, h0, o["_current_transform"])
        sobj = h0[o["_transforms_stack"].oid]
        plen = 0
        if "$plen" in sobj:
            try: plen = max(0, min(int(vc.c_real(model, sobj["$plen"].val)), 3))
            except Exception: plen = 0
        real._transforms_stack = [_real_transform(world, model, h0, o["_current_transform"]) for _ in range(plen)] + [_real_transform(world, model, h0, r) for r in sobj["$l"].items]
        nd = h0[o["_named_transforms"].oid]["$d"]
        real._named_transforms = {k: _real_transform(world, model, h0, nd.vals[k]) for k in nd.present if vc.c_bool(model, nd.present[k])}
        before = {"current": _obs_transform(real._current_transform), "stack": [_obs_transform(t) for t in real._transforms_stack],
                  "named": {k: _obs_transform(t) for k, t in real._named_transforms.items()}}
        raises = vc.c_bool(model, flag.t)
        env = {"g": g, "flag": raises}
        def run(): exec(compile(body_src, "<replayed client code>", "exec"), env)
        out = call_real(run, [], {})
        after = {"current": _obs_transform(real._current_transform), "stack": [_obs_transform(t) for t in real._transforms_stack],
                 "named": {k: _obs_transform(t) for k, t in real._named_transforms.items()}}
        bad = []
        if out[0] == "raise" and not (raises and out[1] == "ValueError"): bad.append(f"{out[1]} escapes: {out[2]}")
        if out[0] == "return" and raises: bad.append("the body's exception was swallowed")
        def same(a, b): return vc.same_py(jsonable(a), jsonable(b), 1e-9)
        if not same(before["current"], after["current"]): bad.append("the transform in effect on entry is not back")
        if len(before["stack"]) != len(after["stack"]): bad.append(f"stack length {len(before['stack'])} -> {len(after['stack'])}")
        elif not same(before["stack"], after["stack"]): bad.append("a stack entry present on entry comes back changed")
        if not same(before["named"], after["named"]): bad.append("a named state changed")
        return {"call": f"client code on a real GCodeCore (body raises: {raises}):\n{body_src}", "observed": [out[0], None if out[0] == "return" else f"{out[1]}: {out[2]}"],
                "before": jsonable(before), "after": jsonable(after), "reproduced": bool(bad), "detail": "; ".join(bad) or "the real run restores the entry state on this input"}
    return rp


# ---------------------------------------------------------------------------------------------- C10 / C11 / C12: tracer shapes
def tracer_replayer(world, method, g, h0, args):
    """args: the symbolic arguments of PathTracer.<method> in call order.  The model's start position, distance mode, direction and arguments are
    turned into ONE concrete shape; the real builder traces it (in both distance modes, output read back by the independent interpreter of
    specs/bounded.py) and the native shape oracle of the bounded stand-in decides whether the real code breaks C10/C11/C12 on this input."""
    def rp(model, obl, cover):
        if cover: return None
        import math
        from specs import bounded, harness
        def xyz(p, default=0.0):
            if p is None: return None
            it = list(p) if not hasattr(p, "x") else [p.x, p.y, p.z]
            it = (it + [None, None, None])[:3]
            return [default if c is None else float(c) for c in it]
        o = h0[g.oid]
        cur = xyz(harness.conc(world, model, o["_current_axes"], h0))
        rel = str(harness.conc(world, model, o["_distance_mode"], h0)).lower().endswith("relative")
        dirn = harness.conc(world, model, h0[o["_state"].oid]["_current_direction"], h0)
        a = [harness.conc(world, model, v, h0) for v in args]
        if any(not math.isfinite(c) or abs(c) > 1e6 for c in cur): return {"reproduced": None, "detail": "the model's coordinates are too large to trace natively"}
        def absolute(p):
            raw = list(p) if not hasattr(p, "x") else [p.x, p.y, p.z]
            raw = (raw + [None, None, None])[:3]
            return tuple((cur[i] + (0.0 if raw[i] is None else float(raw[i]))) if rel else (cur[i] if raw[i] is None else float(raw[i])) for i in range(3))
        sh = {"kind": method, "dir": "cw" if "counter" not in str(dirn).lower() else "ccw"}
        try:
            if method == "arc":
                c = xyz(a[1]); sh.update(target=absolute(a[0]), center=(c[0], c[1]), c=(cur[0] + c[0], cur[1] + c[1]), r=math.hypot(c[0], c[1]))
            elif method == "circle":
                c = xyz(a[0]); sh.update(center=(c[0], c[1]), c=(cur[0] + c[0], cur[1] + c[1]), r=math.hypot(c[0], c[1]))
            elif method == "helix":
                c = xyz(a[1]); sh.update(target=absolute(a[0]), center=(c[0], c[1]), turns=int(a[2]), c=(cur[0] + c[0], cur[1] + c[1]))
            elif method == "spiral": sh.update(target=absolute(a[0]), turns=int(a[1]))
            elif method == "thread": sh.update(target=absolute(a[0]), pitch=float(a[1]))
            elif method == "arc_radius": sh.update(target=absolute(a[0]), radius=float(a[1]))
            else: return None
        except Exception as e:
            return {"reproduced": None, "detail": f"the model's arguments do not make a shape: {e}"}
        extent = max(1.0, max(abs(v) for v in list(sh.get("target", cur)) + cur) , sh.get("r", 1.0))
        if extent > 1e5: return {"reproduced": None, "detail": "the model's coordinates are too large to trace natively"}
        res = max(0.05, extent / 400.0)                       # a resolution that keeps the native run small; C10/C11 do not depend on it
        bad = bounded._shape_oracle(tuple(cur), sh, res)
        if bad and str(bad[0].get("why", "")).startswith("raised"):
            # degenerate shapes (zero radius, zero length ...) are rejected by the real code with an exception: whether that is allowed is decided by the
            # raises-clauses of the unit, not by this geometric oracle
            return {"call": f"trace.{method} at {tuple(cur)} with {sh}", "observed": bad[0]["why"], "reproduced": None, "detail": "the real run raised: not judged by the native shape oracle"}
        info = {"call": f"GCodeBuilder at {tuple(cur)}, direction {sh['dir']}, resolution {res:g}: trace.{method} with {dict((k, v) for k, v in sh.items() if k not in ('kind', 'dir', 'c', 'r'))} "
                        f"(absolute target; traced in absolute AND relative mode)",
                "observed": jsonable(bad[0]) if bad else "ends on the target, vertices on the curve, same vertices in both modes",
                "reproduced": bool(bad), "detail": (bad[0].get("why", "") if bad else "the real run satisfies the native shape oracle on the model's input")}
        return info
    return rp
