"""Contracts on gscrib/printrun/device.py: socket line splitting (C17).

bytes are z3 Strings (A-str: sequences of code units).  The chunk list `_read_buffer` is represented up to what the
code can observe of it — join of all chunks but the last, and the last chunk: [] or [P, L] — stated in DESIGN §4 C17."""
import z3
from pyvc.values import *
from pyvc.state import State, Exit
from pyvc.ctx import unit
from specs.common import *
from specs.dsl import *
from specs import native

NL = z3.StringVal("\n")
def zs(v): return v.z()
def nlfree(t): return NOT(z3.Contains(t, NL))
def is_line(t): return AND(z3.SuffixOf(NL, t), nlfree(z3.SubString(t, 0, z3.Length(t) - 1)))


def sstr(name): r = VStr(None, fresh(name, z3.StringSort())); r.is_bytes = True; return r


def gitems(heap, dev):
    """[(presence guard, z3 string)] of the buffer list"""
    def zz(v): return as_opt(v).inner.z()
    return [((i[1], zz(i[2])) if isinstance(i, tuple) else (T, zz(i))) for i in heap[heap[dev.oid]["_read_buffer"].oid]["$l"].items]


def cat(heap, dev):
    parts = [t if z3.is_true(g) else ITE(g, t, z3.StringVal("")) for g, t in gitems(heap, dev)]
    if not parts: return z3.StringVal("")
    return z3.Concat(*parts) if len(parts) > 1 else parts[0]


def inv_obj(heap, dev):
    """every chunk is non-empty (the joined prefix may be empty) and only the last chunk may contain a newline"""
    g = gitems(heap, dev)
    cs = []
    for k, (p, t) in enumerate(g):
        later = OR(*[q for q, _ in g[k + 1:]])
        cs.append(IMP(AND(p, NOT(later)), z3.Length(t) > 0))       # the last present chunk is non-empty
        cs.append(IMP(AND(p, later), nlfree(t)))                   # every earlier chunk is newline-free
    return AND(*cs)


def mk_device(st, shape):
    """shape 'empty': _read_buffer == [];  'chunks': [P, L] = (join of all chunks but the last, last chunk)"""
    items = [] if shape == "empty" else [sstr("P"), sstr("L")]
    buf = st.alloc("list", {"$l": VList(items)})
    dev = st.alloc("Device", {"_read_buffer": buf, "_is_connected": VBool(T), "_timeout": num(0.25), "_hostname": VStr("host"), "_port_number": num(23),
                              "$received": VStr(""), "$eof": VBool(F)})
    sf = st.alloc("SocketFile", {"$dev": dev}); sel = st.alloc("Selector", {})
    st.heap[dev.oid]["_socketfile"] = sf; st.heap[dev.oid]["_selector"] = sel
    return dev


def h_sock_read(x, recv, args, kwargs, st):
    """assumed contract of the socket file (non-blocking, binary): read(n) returns None (no data yet), b'' (peer closed) or 1..n
    bytes, which are appended to the ghost stream `received`; may raise OSError"""
    oserr = fresh("oserror", z3.BoolSort()); x.ghost["last_oserror"] = oserr
    x.raise_if(st, oserr, "OSError")
    dev = st.heap[recv.oid]["$dev"]
    c = fresh("chunk", z3.StringSort()); none = fresh("again", z3.BoolSort())
    n = x.as_num(st, args[0])
    x.assume.append(AND(z3.Length(c) <= z3.ToInt(n.val), IMP(none, c == z3.StringVal(""))))
    o = st.heap[dev.oid]
    x.ghost.setdefault("script", []).append(("read", none, c, x.ghost.pop("last_oserror", F)))
    o["$received"] = VStr(None, z3.Concat(o["$received"].z(), c))
    o["$eof"] = VBool(OR(o["$eof"].t, AND(NOT(none), z3.Length(c) == 0)))
    r = VStr(None, c); r.is_bytes = True
    return VOpt(none, r)


def h_select(x, recv, args, kwargs, st):
    r = fresh("ready", z3.BoolSort()); x.ghost.setdefault("script", []).append(("select", r))
    return VBool(r)


def install_dev(x):
    x.contracts[("SocketFile", "read")] = h_sock_read
    x.contracts[("Selector", "select")] = h_select
    x.ghost["obls"] = []


def loop_inv(heap, dev, C0):
    """at the head of `while True`: nothing has been delivered in this call, every buffered chunk is newline-free and
    non-empty, and  cat(buffer) == C0 ++ received"""
    cs = [cat(heap, dev) == z3.Concat(C0, heap[dev.oid]["$received"].z()), NOT(heap[dev.oid]["$eof"].t), heap[dev.oid]["_is_connected"].t,
          nlfree(cat(heap, dev)), inv_obj(heap, dev)]
    return AND(*cs)


def make_while_handler(dev, C0):
    def handler(x, node, st):
        if not (isinstance(node.test, __import__("ast").Constant) and node.test.value is True): raise Unsupported("loop contract expects `while True`")
        x.ghost["obls"].append(("loop invariant holds on entry", st.pc, loop_inv(st.heap, dev, C0)))
        base_pc = st.pc
        for shape in ("empty", "chunks"):
            s2 = st.fork()
            items = [] if shape == "empty" else [sstr("Pk"), sstr("Lk")]
            s2.heap[s2.heap[dev.oid]["_read_buffer"].oid] = {"$l": VList(items)}
            rk = sstr("Rk"); s2.heap[dev.oid]["$received"] = rk
            i0 = len(x.ghost.setdefault("script", []))
            for v in ("chunk", "line"): s2.env.pop(v, None)
            s2.pc = simp(AND(base_pc, loop_inv(s2.heap, dev, C0)))
            start = s2.snap()
            x.block(node.body, s2)
            x.ghost.setdefault("segments", []).append((shape, str(rk.term), start, x.ghost["script"][i0:]))
            if not s2.dead:
                x.ghost["obls"].append((f"loop invariant preserved by an iteration that does not return [{shape}]", s2.pc, loop_inv(s2.heap, dev, C0)))
        n0 = [e for e in x.exits if e.kind in ("break", "continue")]
        if n0: raise Unsupported("break/continue in the contracted loop")
        st.pc = F            # `while True` without break never falls through
    return handler


def run_dev(ctx, method, shape, with_loop=False):
    st = State(T, {}, {}, [])
    dev = mk_device(st, shape)
    x = ctx.executor(); install_dev(x)
    ctx.assume(inv_obj(st.heap, dev))
    C0 = cat(st.heap, dev)
    if with_loop: x.loop_handlers[("Device._readline_socket", 1)] = make_while_handler(dev, C0)
    h0 = st.snap()
    exits = ctx.run(x, f"Device.{method}", [dev], {}, st, split_returns=True)
    for name, pc, f in x.ghost["obls"]: ctx.check(name, IMP(pc, f), None, None, "inv")
    covers(ctx, exits)
    # native replay: from the function entry, or (exits and obligations of the contracted loop) from the loop-head state of that iteration
    segs = x.ghost.get("segments", [])
    start_heaps = [(None, h0)] + [(None, sg[2]) for sg in segs]
    scripts = {0: [ev for ev in x.ghost.get("script", [])][:0]} | {k + 1: sg[3] for k, sg in enumerate(segs)}
    def seg_of(obl):
        for k, sg in enumerate(segs):
            if obl.exit is None and f"[{sg[0]}]" in obl.name and "iteration" in obl.name: return k + 1
            if obl.exit is not None and sg[1] in obl.exit.cond.sexpr(): return k + 1
        return 0
    ctx.replayer = native.device_replayer(method, dev, start_heaps, scripts, seg_of, cat_of=lambda heap: cat(heap, dev))
    return dev, h0, C0, exits, x


def result_bytes(e):
    """(is_bytes_result, z3 string) of a return exit: None -> ('eof'), bytes -> string"""
    v = e.payload
    if isinstance(v, VNone): return None
    return as_opt(v)


for _shape in ("empty", "chunks"):
    def _mk(shape):
        @unit(f"Device._readline_buf[{shape}]", ["C17"])
        def u(ctx):
            dev, h0, C0, exits, x = run_dev(ctx, "_readline_buf", shape)
            never_raises(ctx, exits)
            for e in exits:
                if e.kind != "return": continue
                r = as_opt(e.payload).inner.z()
                C1 = cat(e.heap, dev)
                ctx.check(f"conservation: cat(buffer) == result ++ cat(buffer') @{e.where}", C0 == z3.Concat(r, C1), e, None, "post")
                ctx.check(f"a non-empty result is exactly one line: newline-free text followed by one newline @{e.where}", IMP(z3.Length(r) > 0, is_line(r)), e, None, "post")
                ctx.check(f"READ_EMPTY only when no complete line is buffered @{e.where}", IMP(z3.Length(r) == 0, nlfree(C0)), e, None, "post")
                ctx.check(f"buffer invariant preserved @{e.where}", inv_obj(e.heap, dev), e, None, "inv")
            if shape != "empty": ctx.canary("canary:always-empty", AND(*[IMP(e.cond, z3.Length(as_opt(e.payload).inner.z()) == 0) for e in exits if e.kind == "return"]))
        return u
    _mk(_shape)


for _shape in ("empty", "chunks"):
    def _mk2(shape):
        @unit(f"Device._readline_socket[{shape}]", ["C17"])
        def u(ctx):
            dev, h0, C0, exits, x = run_dev(ctx, "_readline_socket", shape, with_loop=True)
            eofs = []
            for e in exits:
                o1 = e.heap[dev.oid]
                R = o1["$received"].z(); C1 = cat(e.heap, dev)
                if e.kind == "raise":
                    ctx.check(f"only DeviceError escapes, and the device is marked disconnected @{e.where}", AND(z3.BoolVal(e.payload == "DeviceError"), NOT(o1["_is_connected"].t)), e, None, "raises")
                    continue
                pv = as_opt(e.payload)
                is_eof = pv.none                       # READ_EOF is None
                eofs.append(AND(e.cond, is_eof))
                ctx.check(f"READ_EOF only after the peer closed with nothing pending; device marked disconnected @{e.where}",
                          IMP(is_eof, AND(o1["$eof"].t, z3.Concat(C0, R) == z3.StringVal(""), C1 == z3.StringVal(""), NOT(o1["_is_connected"].t))), e, None, "post")
                if pv.inner is None: continue
                r = pv.inner.z()
                ctx.check(f"conservation: cat(buffer) ++ received == result ++ cat(buffer') @{e.where}", IMP(NOT(is_eof), z3.Concat(C0, R) == z3.Concat(r, C1)), e, None, "post")
                ctx.check(f"a non-empty result is one complete line, or the unterminated tail delivered at end of stream @{e.where}",
                          IMP(AND(NOT(is_eof), z3.Length(r) > 0), OR(is_line(r), AND(o1["$eof"].t, nlfree(r), C1 == z3.StringVal("")))), e, None, "post")
                ctx.check(f"READ_EMPTY only when no complete line is available and the peer has not closed @{e.where}",
                          IMP(AND(NOT(is_eof), z3.Length(r) == 0), AND(nlfree(z3.Concat(C0, R)), NOT(o1["$eof"].t))), e, None, "post")
                ctx.check(f"buffer invariant preserved @{e.where}", inv_obj(e.heap, dev), e, None, "inv")
                ctx.check(f"still connected unless READ_EOF @{e.where}", IMP(NOT(is_eof), o1["_is_connected"].t), e, None, "post")
            if shape == "empty": ctx.canary("canary: READ_EOF is never returned", NOT(OR(*eofs)))
            ctx.trust("socket file contract: read(n) returns None | b'' | 1..n bytes (assumed)", "A-str: bytes are sequences of code units (z3 Strings)")
        return u
    _mk2(_shape)
