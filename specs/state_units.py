"""Contracts on GState (gscrib/gcode_state.py), BoundManager (geometry/bounds.py) and the Point predicates they use.

Top-level clauses are transcribed from the property statements (C02 interlocks: "rejected only when ...";
C03 bounds inclusive, NaN never passes; C05 rejected => no effect; C06 OFF always succeeds); frames and helper
preconditions are read off the code."""
import z3
from pyvc.values import *
from pyvc.state import State
from pyvc.ctx import unit
from specs.common import *
from specs.dsl import *
from specs import harness

ZERO = num(0)


def setup_state(ctx, method, mk_args):
    st = State(T, {}, {}, [])
    sref, wf, info = mk_state(st, ctx.w)
    args, wfa, reals = mk_args(ctx)
    ctx.assume(wf, wfa, wf_tool(ctx.w, st.heap, sref))
    ctx.input_reals = info["reals"] + reals
    x = ctx.executor()
    h0 = st.snap()
    exits = ctx.run(x, f"GState.{method}", [sref] + args, {}, st)
    ctx.replayer = harness.state_method_replayer(ctx, ctx.w, method, sref, h0, args, exits)
    covers(ctx, exits)
    exits_partition(ctx, exits)
    for e in exits:
        ctx.check(f"wf tool flags consistent @{e.kind}@{e.where}", wf_tool(ctx.w, e.heap, sref), e, ["C07", "C02", "C06"], "inv")
    return sref, h0, args, exits, info


def fld(h, ref, f): return h[ref.oid][f]


def bound_ok(h, info, key, v):
    p, lo, hi = bounds_entry(h, info["bounds"], key)
    return OR(NOT(p), in_range(v, lo, hi))


def member(ctx, cls, name): return z3.IntVal(ctx.w.enum_index(cls, name))


# ---------------------------------------------------------------------------------------------- tool (spindle / power)
def _tool_mode_unit(ctx, method, enum_cls, mode_field, default_off):
    def mk(ctx):
        mode, wfm = sym_enum(enum_cls, ctx.w)
        if default_off:
            ctx.assume(mode.idx == member(ctx, enum_cls, "OFF"))
            return [mode], wfm, []
        v, wfv = sym_num("level")
        return [mode, v], AND(wfm, wfv), [v.val]
    sref, h0, args, exits, info = setup_state(ctx, method, mk)
    mode = args[0]; level = args[1] if len(args) > 1 else ZERO
    off = mode.idx == member(ctx, enum_cls, "OFF")
    active0 = fld(h0, sref, "_is_tool_active").t
    power_ok = AND(bound_ok(h0, info, "tool-power", level), NOT(n_lt(level, ZERO)), level.finite)
    if default_off:
        # C06: switching the tool off is never rejected, whatever the bounds table says
        never_raises(ctx, exits, props=["C06", "C02"])
    else:
        raises_iff(ctx, exits, {
            "ToolStateError": AND(NOT(off), active0),                          # C02: only when a tool is already running
            "ValueError": AND(NOT(AND(NOT(off), active0)), NOT(off), NOT(power_ok)),   # C03: bound / negativity; OFF is never validated (C06)
        }, props=["C02", "C03", "C06"])
    on_raise_unchanged(ctx, exits, h0, {"state": sref}, props=["C05"])
    post(ctx, exits, "tool-active==(mode!=OFF)", lambda e: fld(e.heap, sref, "_is_tool_active").t == NOT(off), ["C02", "C06", "C07"])
    post(ctx, exits, "mode-recorded", lambda e: fld(e.heap, sref, mode_field).idx == mode.idx, ["C07"])
    post(ctx, exits, "power-recorded", lambda e: IMP(NOT(off), v_same(fld(e.heap, sref, "_current_tool_power"), level)), ["C07", "C03"])
    post(ctx, exits, "power-within-bounds", lambda e: IMP(NOT(off), bound_ok(h0, info, "tool-power", fld(e.heap, sref, "_current_tool_power"))), ["C03"])
    frame(ctx, exits, h0, sref, {"_is_tool_active", "_current_spin_mode", "_current_power_mode", "_current_tool_power"})
    for e in exits:
        if e.kind == "return": ctx.canary("canary:return-implies-was-inactive", NOT(active0), e)


@unit("GState._set_spin_mode", ["C02", "C03", "C05", "C06", "C07"])
def u_spin(ctx): _tool_mode_unit(ctx, "_set_spin_mode", "SpinMode", "_current_spin_mode", False)


@unit("GState._set_spin_mode(OFF)", ["C02", "C05", "C06", "C07"])
def u_spin_off(ctx): _tool_mode_unit(ctx, "_set_spin_mode", "SpinMode", "_current_spin_mode", True)


@unit("GState._set_power_mode", ["C02", "C03", "C05", "C06", "C07"])
def u_power(ctx): _tool_mode_unit(ctx, "_set_power_mode", "PowerMode", "_current_power_mode", False)


@unit("GState._set_power_mode(OFF)", ["C02", "C05", "C06", "C07"])
def u_power_off(ctx): _tool_mode_unit(ctx, "_set_power_mode", "PowerMode", "_current_power_mode", True)


# ---------------------------------------------------------------------------------------------- coolant
@unit("GState._set_coolant_mode", ["C02", "C05", "C06", "C07"])
def u_coolant(ctx):
    def mk(ctx):
        m, wf = sym_enum("CoolantMode", ctx.w); return [m], wf, []
    sref, h0, (mode,), exits, info = setup_state(ctx, "_set_coolant_mode", mk)
    off = mode.idx == member(ctx, "CoolantMode", "OFF")
    active0 = fld(h0, sref, "_is_coolant_active").t
    raises_iff(ctx, exits, {"CoolantStateError": AND(NOT(off), active0)}, props=["C02", "C06"])
    on_raise_unchanged(ctx, exits, h0, {"state": sref}, props=["C05"])
    post(ctx, exits, "coolant-active==(mode!=OFF)", lambda e: fld(e.heap, sref, "_is_coolant_active").t == NOT(off), ["C02", "C06", "C07"])
    post(ctx, exits, "mode-recorded", lambda e: fld(e.heap, sref, "_current_coolant_mode").idx == mode.idx, ["C07"])
    frame(ctx, exits, h0, sref, {"_is_coolant_active", "_current_coolant_mode"})
    for e in exits:
        if e.kind == "return": ctx.canary("canary:return-implies-was-inactive", NOT(active0), e)


# ---------------------------------------------------------------------------------------------- tool number / halt
@unit("GState._set_tool_number", ["C02", "C03", "C05", "C07"])
def u_toolno(ctx):
    def mk(ctx):
        m, wf = sym_enum("ToolSwapMode", ctx.w)
        n, wfn = sym_num("toolno", isint=True, finite=True)
        return [m, n], AND(wf, wfn, z3.IsInt(n.val)), [n.val]
    sref, h0, (mode, n), exits, info = setup_state(ctx, "_set_tool_number", mk)
    tool0, cool0 = fld(h0, sref, "_is_tool_active").t, fld(h0, sref, "_is_coolant_active").t
    bad_number = OR(NOT(bound_ok(h0, info, "tool-number", n)), n.val < 1)
    raises_iff(ctx, exits, {
        "ValueError": bad_number,
        "ToolStateError": AND(NOT(bad_number), tool0),
        "CoolantStateError": AND(NOT(bad_number), NOT(tool0), cool0),
    }, props=["C02", "C03"])
    on_raise_unchanged(ctx, exits, h0, {"state": sref}, props=["C05"])
    post(ctx, exits, "number-recorded", lambda e: v_same(fld(e.heap, sref, "_current_tool_number"), n), ["C07"])
    post(ctx, exits, "swap-mode-recorded", lambda e: fld(e.heap, sref, "_current_tool_swap_mode").idx == mode.idx, ["C07"])
    post(ctx, exits, "interlock: accepted only with tool and coolant off", lambda e: AND(NOT(tool0), NOT(cool0)), ["C02"])
    post(ctx, exits, "number-within-bounds", lambda e: AND(bound_ok(h0, info, "tool-number", n), n.val >= 1), ["C03"])
    frame(ctx, exits, h0, sref, {"_current_tool_number", "_current_tool_swap_mode"})
    for e in exits:
        if e.kind == "return": ctx.canary("canary:number>1", n.val > 1, e)


@unit("GState._set_halt_mode", ["C02", "C05", "C07"])
def u_halt(ctx):
    def mk(ctx):
        m, wf = sym_enum("HaltMode", ctx.w); return [m], wf, []
    sref, h0, (mode,), exits, info = setup_state(ctx, "_set_halt_mode", mk)
    off = mode.idx == member(ctx, "HaltMode", "OFF")
    tool0, cool0 = fld(h0, sref, "_is_tool_active").t, fld(h0, sref, "_is_coolant_active").t
    raises_iff(ctx, exits, {
        "ToolStateError": AND(NOT(off), tool0),
        "CoolantStateError": AND(NOT(off), NOT(tool0), cool0),
    }, props=["C02"])
    on_raise_unchanged(ctx, exits, h0, {"state": sref}, props=["C05"])
    post(ctx, exits, "mode-recorded", lambda e: fld(e.heap, sref, "_current_halt_mode").idx == mode.idx, ["C07", "C02"])
    post(ctx, exits, "interlock: a halt is accepted only with tool and coolant off",
         lambda e: IMP(NOT(off), AND(NOT(tool0), NOT(cool0))), ["C02"])
    frame(ctx, exits, h0, sref, {"_current_halt_mode"})
    for e in exits:
        if e.kind == "return": ctx.canary("canary:return-implies-OFF", off, e)


# ---------------------------------------------------------------------------------------------- numeric setters
def _num_setter(ctx, method, field, key, nonneg):
    def mk(ctx):
        v, wf = sym_num("v"); return [v], wf, [v.val]
    sref, h0, (v,), exits, info = setup_state(ctx, method, mk)
    ok = bound_ok(h0, info, key, v)
    if nonneg: ok = AND(ok, NOT(n_lt(v, ZERO)), v.finite)      # feed rate / tool power: negative or non-finite values are rejected
    raises_iff(ctx, exits, {"ValueError": NOT(ok)}, props=["C03"])
    on_raise_unchanged(ctx, exits, h0, {"state": sref}, props=["C05"])
    post(ctx, exits, "value-recorded", lambda e: v_same(fld(e.heap, sref, field), v), ["C07"])
    # C03, read from the statement: an accepted value lies inside the configured limits (inclusive) and is not NaN if a limit exists
    def inside(e):
        p, lo, hi = bounds_entry(h0, info["bounds"], key)
        return IMP(p, AND(NOT(v.nan), n_le(lo, v), n_le(v, hi)))
    post(ctx, exits, "accepted-value-inside-limits", inside, ["C03"])
    frame(ctx, exits, h0, sref, {field})
    for e in exits:
        if e.kind == "return": ctx.canary("canary:accepted-implies-positive", n_lt(ZERO, v), e)


@unit("GState._set_feed_rate", ["C03", "C05", "C07"])
def u_feed(ctx): _num_setter(ctx, "_set_feed_rate", "_current_feed_rate", "feed-rate", True)


@unit("GState._set_tool_power", ["C03", "C05", "C07"])
def u_tpower(ctx): _num_setter(ctx, "_set_tool_power", "_current_tool_power", "tool-power", True)


@unit("GState._set_target_bed_temperature", ["C03", "C05", "C07"])
def u_bed(ctx): _num_setter(ctx, "_set_target_bed_temperature", "_target_bed_temperature", "bed-temperature", False)


@unit("GState._set_target_hotend_temperature", ["C03", "C05", "C07"])
def u_hotend(ctx): _num_setter(ctx, "_set_target_hotend_temperature", "_target_hotend_temperature", "hotend-temperature", False)


@unit("GState._set_target_chamber_temperature", ["C03", "C05", "C07"])
def u_chamber(ctx): _num_setter(ctx, "_set_target_chamber_temperature", "_target_chamber_temperature", "chamber-temperature", False)


@unit("GState._set_resolution", ["C12", "C05"])
def u_resolution(ctx):
    def mk(ctx):
        v, wf = sym_num("v"); return [v], wf, [v.val]
    sref, h0, (v,), exits, info = setup_state(ctx, "_set_resolution", mk)
    raises_iff(ctx, exits, {"ValueError": n_le(v, ZERO)}, props=["C12"])
    on_raise_unchanged(ctx, exits, h0, {"state": sref}, props=["C05", "C12"])
    post(ctx, exits, "value-recorded", lambda e: v_same(fld(e.heap, sref, "_current_resolution"), v), ["C12"])
    frame(ctx, exits, h0, sref, {"_current_resolution"}, props=["C12", "C05"])


@unit("GState._set_axes", ["C01", "C03", "C05"])
def u_axes(ctx):
    def mk(ctx):
        p, wf = sym_point("axes")
        return [p], wf, [c.inner.val for c in p.items()]
    sref, h0, (p,), exits, info = setup_state(ctx, "_set_axes", mk)
    pres, lo, hi = bounds_entry(h0, info["bounds"], "axes")
    ok = OR(NOT(pres), point_in_box(p, lo, hi))
    raises_iff(ctx, exits, {"ValueError": NOT(ok)}, props=["C03"])
    on_raise_unchanged(ctx, exits, h0, {"state": sref}, props=["C05"])
    post(ctx, exits, "position-recorded", lambda e: v_same(fld(e.heap, sref, "_current_axes"), p), ["C01", "C07"])
    def inside(e):     # every known coordinate of an accepted position is a non-NaN value inside the box
        cs = []
        for c, l, h in zip(p.items(), lo.items(), hi.items()):
            cs.append(OR(c.none, AND(NOT(c.inner.nan), n_le(l.inner, c.inner), n_le(c.inner, h.inner))))
        return IMP(pres, AND(*cs))
    post(ctx, exits, "accepted-position-inside-box", inside, ["C03"])
    frame(ctx, exits, h0, sref, {"_current_axes"})
    for e in exits:
        if e.kind == "return": ctx.canary("canary:accepted-implies-x-known", NOT(p.x.none), e)


# ---------------------------------------------------------------------------------------------- plain setters (C07 frame)
PLAIN = [("_set_distance_mode", "DistanceMode", "_current_distance_mode"), ("_set_extrusion_mode", "ExtrusionMode", "_current_extrusion_mode"),
         ("_set_feed_mode", "FeedMode", "_current_feed_mode"), ("_set_length_units", "LengthUnits", "_current_length_units"),
         ("_set_plane", "Plane", "_current_plane"), ("_set_time_units", "TimeUnits", "_current_time_units"),
         ("_set_temperature_units", "TemperatureUnits", "_current_temperature_units"), ("_set_direction", "Direction", "_current_direction")]


def _plain(method, cls, field):
    @unit(f"GState.{method}", ["C07", "C01"] if "distance" in method else ["C07"])
    def u(ctx):
        def mk(ctx):
            m, wf = sym_enum(cls, ctx.w); return [m], wf, []
        sref, h0, (m,), exits, info = setup_state(ctx, method, mk)
        never_raises(ctx, exits)
        post(ctx, exits, "value-recorded", lambda e: fld(e.heap, sref, field).idx == m.idx)
        frame(ctx, exits, h0, sref, {field})
        for e in exits:
            if e.kind == "return": ctx.canary("canary:first-member", m.idx == 0, e)
    return u


for _m, _c, _f in PLAIN: _plain(_m, _c, _f)
