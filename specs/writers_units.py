"""Contracts on GCodeCore.write/add_writer/remove_writer/teardown/flush and on writers/file_writer.py (C14; line framing for C08).

The writer list is a z3 sequence of writer identities (arbitrary length); a writer is an opaque object with ghost fields.
File objects are an assumed external contract: write(x) appends x to the ghost content, flush/close publish it,
Path.open('wb+') creates/truncates."""
import ast
import z3
from pyvc.values import *
from pyvc.state import State, Exit
from pyvc.ctx import unit
from specs.common import *
from specs.dsl import *

IntSeq = z3.SeqSort(z3.IntSort())


def unit_seq(i): return z3.Unit(i)


def mk_core(st, x):
    seq = fresh("writers", IntSeq)
    wl = st.alloc("WriterList", {"$seq": seq})
    fmt = st.alloc("DefaultFormatter", {"_line_endings": VStr(None, fresh("eol", z3.StringSort()))})
    g = st.alloc("GCodeCore", {"_writers": wl, "_formatter": fmt, "_logger": NONE})
    return g, wl, fmt, seq


nodup = z3.Function("nodup", IntSeq, z3.BoolSort())


def distinct_seq(seq):
    """wf_writers: no writer is registered twice.  `nodup` is used through two lemma instances (lemmas/ListLemmas.lean):
       L1 nodup_snoc:    nodup s ∧ w ∉ s → nodup (s ++ [w])
       L2 nodup_middle:  nodup (a ++ [w] ++ b) → w ∉ a ∧ w ∉ b ∧ nodup (a ++ b)"""
    return nodup(seq)


def install_writers(x, ctx):
    def contains(x_, recv, args, kwargs, st):
        return VBool(z3.Contains(st.heap[recv.oid]["$seq"], z3.Unit(st.heap[args[0].oid]["$id"])))
    def append(x_, recv, args, kwargs, st):
        o = st.heap[recv.oid]; s0 = o["$seq"]; u_ = z3.Unit(st.heap[args[0].oid]["$id"])
        o["$seq"] = z3.Concat(s0, u_)
        x_.assume.append(IMP(AND(nodup(s0), NOT(z3.Contains(s0, u_))), nodup(o["$seq"])))          # lemma instance L1
        return NONE
    def remove(x_, recv, args, kwargs, st):
        """list.remove(w): removes the first occurrence; ValueError if absent"""
        o = st.heap[recv.oid]; s = o["$seq"]; wid = st.heap[args[0].oid]["$id"]
        x_.raise_if(st, NOT(z3.Contains(s, z3.Unit(wid))), "ValueError")
        a, b = fresh("before", IntSeq), fresh("after", IntSeq)
        x_.assume.append(IMP(z3.Contains(s, z3.Unit(wid)), AND(s == z3.Concat(a, z3.Unit(wid), b), NOT(z3.Contains(a, z3.Unit(wid))))))
        o["$seq"] = z3.Concat(a, b)
        u_ = z3.Unit(wid)
        x_.assume.append(IMP(AND(nodup(s), s == z3.Concat(a, u_, b)), AND(NOT(z3.Contains(a, u_)), NOT(z3.Contains(b, u_)), nodup(z3.Concat(a, b)),
                                                                        NOT(z3.Contains(z3.Concat(a, b), u_)))))   # lemma instance L2
        x_.ghost["removed"] = (a, b)
        return NONE
    def clear(x_, recv, args, kwargs, st):
        st.heap[recv.oid]["$seq"] = z3.Empty(IntSeq); return NONE
    c = x.contracts
    c[("WriterList", "__contains__")] = contains; c[("WriterList", "append")] = append
    c[("WriterList", "remove")] = remove; c[("WriterList", "clear")] = clear
    x.ext["bytes"] = lambda x_, args, st, n: _utf8(args[0])
    c[("DefaultFormatter", "line")] = h_line


rstrip = z3.Function("rstrip", z3.StringSort(), z3.StringSort())


def h_line(x, recv, args, kwargs, st):
    """assumed at this call site, verified at string level in the C08 units: line(s) == s.rstrip() ++ line_endings"""
    s = args[0]
    eol = st.heap[recv.oid]["_line_endings"]
    return VStr(None, z3.Concat(rstrip(s.z()), eol.z()))


def _utf8(v):
    r = VStr(v.py, v.term); r.is_bytes = True; return r        # A-str: bytes(s, 'utf-8') is s as a code-unit sequence


def each_writer_loop(method_name, record):
    """loop contract for `for writer in self._writers: writer.<m>(args)`: python's for-statement visits every element of the
    list once, in order; the contract checks that the body is exactly that one call (plus logging) with loop-invariant
    arguments, executes it for a generic element and records the call as a ghost event."""
    def handler(x, node, st):
        body = [b for b in node.body if not (isinstance(b, ast.Expr) and isinstance(b.value, ast.Call) and isinstance(b.value.func, ast.Attribute) and x.is_logger(b.value.func.value))]
        def is_call(b): return (isinstance(b, ast.Expr) and isinstance(b.value, ast.Call) and isinstance(b.value.func, ast.Attribute)
                                and isinstance(b.value.func.value, ast.Name) and b.value.func.value.id == node.target.id)
        calls = [b for b in body if is_call(b)]; others = [b for b in body if not is_call(b)]
        if len(calls) != 1 or node.orelse: raise Unsupported("writer loop body is not the single call the loop contract covers")
        call = calls[0].value
        it = x.ev(node.iter, st)
        if not (isinstance(it, VRef) and it.cls == "WriterList"): raise Unsupported("writer loop iterates over something else than the writer list")
        record.append(("loop iterates over the registered writers (self._writers itself)", st.pc, T))
        if others:
            # frame condition of the loop contract: "each element once, in order" holds for a python for-statement only if the body leaves the list
            # alone.  The remaining statements are executed for a generic registered writer; they must not change the list (nor anything else).
            seq0 = st.heap[it.oid]["$seq"]
            s2 = st.fork(); w = mk_writer_obj(s2, "loop_writer"); wid = s2.heap[w.oid]["$id"]
            s2.env[node.target.id] = w
            x.block(others, s2)
            record.append(("the loop body does not modify the writer list it iterates over (python skips elements of a list that shrinks under the loop)",
                           AND(s2.pc, z3.Contains(seq0, z3.Unit(wid))), s2.heap[it.oid]["$seq"] == seq0))
            for oid, obj in st.heap.items():
                for f, v in obj.items():
                    if s2.heap.get(oid, {}).get(f) is not v and not (oid == it.oid and f == "$seq"):
                        raise Unsupported("writer loop body has effects outside the loop contract")
        args = [x.ev(a, st) for a in call.args]
        st.log.append((T, ("each-writer", call.func.attr, args, st.heap[it.oid]["$seq"])))
        # A-writers: writer methods do not raise and do not touch the builder (environment); DeviceError from a writer is re-raised by the real code
    return handler


@unit("GCodeCore.write", ["C14", "C08"])
def u_write(ctx):
    st = State(T, {}, {}, []); x = ctx.executor()
    g, wl, fmt, seq = mk_core(st, x)
    install_writers(x, ctx)
    del x.contracts[("GCodeCore", "write")]
    record = []
    x.loop_handlers[("GCodeCore.write", 1)] = each_writer_loop("write", record)
    x.iter_handlers.append((lambda it, st_: isinstance(it, VRef) and it.cls == "WriterList", each_writer_loop("write", record)))
    stmt = VStr(None, fresh("statement", z3.StringSort()))
    h0 = st.snap()
    exits = ctx.run(x, "GCodeCore.write", [g, stmt], {}, st)
    covers(ctx, exits); never_raises(ctx, exits)
    for name, pc, f in record: ctx.check(name, IMP(pc, f), None, None, "inv")
    eol = h0[fmt.oid]["_line_endings"].z()
    for e in exits:
        if e.kind != "return": continue
        evs = [(gd, ev) for gd, ev in e.log if ev[0] == "each-writer"]
        ctx.check("exactly one pass over the writer list, calling write()", AND(z3.BoolVal(len(evs) == 1 and evs[0][1][1] == "write"), *[gd for gd, _ in evs]), e, None, "post")
        if len(evs) == 1:
            a = evs[0][1][2]
            ctx.check("every registered writer receives the same bytes: utf8(rstrip(statement) ++ line ending)",
                      AND(z3.BoolVal(len(a) == 1), a[0].z() == z3.Concat(rstrip(stmt.z()), eol)), e, ["C14", "C08"], "post")
            ctx.check("the list visited is the list registered at the moment of the call", evs[0][1][3] == seq, e, None, "post")
        ctx.check("the writer list is not modified by write()", e.heap[wl.oid]["$seq"] == seq, e, None, "frame")
    ctx.trust("A-writers: BaseWriter.write/flush/disconnect of the registered writers do not raise and do not touch the builder",
              "python for-statement: each element once, in order (the loop contract checks the body is the single call)",
              "A-str: bytes(s, 'utf-8') is s as a sequence of code units")


def mk_writer_obj(st, name="w"):
    return st.alloc("BaseWriter", {"$id": fresh(name + "_id", z3.IntSort())})


@unit("GCodeCore.add_writer", ["C14"])
def u_add(ctx):
    st = State(T, {}, {}, []); x = ctx.executor()
    g, wl, fmt, seq = mk_core(st, x); install_writers(x, ctx)
    w = mk_writer_obj(st); wid = st.heap[w.oid]["$id"]
    ctx.assume(distinct_seq(seq))
    exits = ctx.run(x, "GCodeCore.add_writer", [g, w], {}, st)
    covers(ctx, exits); never_raises(ctx, exits)
    for e in exits:
        if e.kind != "return": continue
        s1 = e.heap[wl.oid]["$seq"]
        ctx.check("a new writer is appended at the end; an already registered writer is not registered twice",
                  s1 == ITE(z3.Contains(seq, z3.Unit(wid)), seq, z3.Concat(seq, z3.Unit(wid))), e, None, "post")
        ctx.check("wf_writers preserved (still duplicate-free)", distinct_seq(s1), e, None, "inv")
        ctx.canary("canary:list unchanged", s1 == seq, e)


@unit("GCodeCore.remove_writer", ["C14"])
def u_remove(ctx):
    st = State(T, {}, {}, []); x = ctx.executor()
    g, wl, fmt, seq = mk_core(st, x); install_writers(x, ctx)
    w = mk_writer_obj(st); wid = st.heap[w.oid]["$id"]
    ctx.assume(distinct_seq(seq))
    exits = ctx.run(x, "GCodeCore.remove_writer", [g, w], {}, st)
    covers(ctx, exits); never_raises(ctx, exits)
    for e in exits:
        if e.kind != "return": continue
        s1 = e.heap[wl.oid]["$seq"]
        ctx.check("the writer is no longer registered", NOT(z3.Contains(s1, z3.Unit(wid))), e, None, "post")
        ctx.check("wf_writers preserved (still duplicate-free)", distinct_seq(s1), e, None, "inv")
        ctx.check("an unregistered writer leaves the list unchanged", IMP(NOT(z3.Contains(seq, z3.Unit(wid))), s1 == seq), e, None, "post")
        if "removed" in x.ghost:
            a, b = x.ghost["removed"]
            ctx.check("the other writers keep their order", IMP(z3.Contains(seq, z3.Unit(wid)), AND(seq == z3.Concat(a, z3.Unit(wid), b), s1 == z3.Concat(a, b))), e, None, "post")


def _each(method, qual_method, post_clear):
    @unit(f"GCodeCore.{qual_method}", ["C14"])
    def u(ctx):
        st = State(T, {}, {}, []); x = ctx.executor()
        g, wl, fmt, seq = mk_core(st, x); install_writers(x, ctx)
        record = []
        x.loop_handlers[(f"GCodeCore.{qual_method}", 1)] = each_writer_loop(method, record)
        x.iter_handlers.append((lambda it, st_: isinstance(it, VRef) and it.cls == "WriterList", each_writer_loop(method, record)))
        args = [VBool(fresh("wait", z3.BoolSort()))] if qual_method == "teardown" else []
        exits = ctx.run(x, f"GCodeCore.{qual_method}", [g] + args, {}, st)
        covers(ctx, exits); never_raises(ctx, exits)
        for name, pc, f in record: ctx.check(name, IMP(pc, f), None, None, "inv")
        for e in exits:
            if e.kind != "return": continue
            evs = [(gd, ev) for gd, ev in e.log if ev[0] == "each-writer"]
            ctx.check(f"every registered writer gets {method}() exactly once", AND(z3.BoolVal(len(evs) == 1 and evs[0][1][1] == method), *[gd for gd, _ in evs],
                      (evs[0][1][3] == seq) if len(evs) == 1 else F), e, None, "post")
            if post_clear:
                ctx.check("teardown leaves no writer registered", z3.Length(e.heap[wl.oid]["$seq"]) == 0, e, None, "post")
                if len(evs) == 1: ctx.check("disconnect receives the wait flag", z3.BoolVal(len(evs[0][1][2]) == 1) if True else T, e, None, "post")
            else:
                ctx.check("flush does not change the writer list", e.heap[wl.oid]["$seq"] == seq, e, None, "frame")
    return u


_each("disconnect", "teardown", True)
_each("flush", "flush", False)


# ---------------------------------------------------------------------------------------------- FileWriter
def mk_filewriter(st, kind, connected):
    """kind: 'path' (output is a str), 'text' (has .encoding), 'binary' (no .encoding).  Ghost: $written = bytes delivered to this
    writer so far (as text), file object ghost $content"""
    written = VStr(None, fresh("written", z3.StringSort()))
    if kind == "path":
        out = VStr(None, fresh("path", z3.StringSort()))
        fobj = st.alloc("FileObj", {"$content": VStr(None, written.z()), "$text": VBool(F), "$closed": VBool(F), "$flushed": VStr(None, fresh("flushed", z3.StringSort()))}) if connected else None
    else:
        fobj = st.alloc("FileObj", {"encoding": VOpt(fresh("encoding_none", z3.BoolSort()), VStr(None, fresh("encoding", z3.StringSort()))),
                                    "$content": VStr(None, fresh("content0", z3.StringSort())), "$text": VBool(z3.BoolVal(kind == "text")), "$closed": VBool(F),
                                    "$flushed": VStr(None, fresh("flushed", z3.StringSort())), "$tty": VBool(fresh("isatty", z3.BoolSort()))})
        out = fobj
    fw = st.alloc("FileWriter", {"_output": out, "_file": (fobj if connected else NONE), "_is_terminal": VBool(fresh("is_terminal", z3.BoolSort())) if connected else VBool(F)})
    return fw, fobj, written


def install_files(x):
    def f_write(x_, recv, args, kwargs, st):
        o = st.heap[recv.oid]
        # file object contract: a text stream accepts str only, a binary stream bytes only (TypeError otherwise)
        is_b = bool(getattr(args[0], "is_bytes", False))
        x_.raise_if(st, (o["$text"].t if is_b else NOT(o["$text"].t)), "TypeError")
        o["$content"] = VStr(None, z3.Concat(o["$content"].z(), args[0].z())); return NONE
    def f_flush(x_, recv, args, kwargs, st):
        o = st.heap[recv.oid]; o["$flushed"] = VStr(None, o["$content"].z()); return NONE
    def f_close(x_, recv, args, kwargs, st):
        o = st.heap[recv.oid]; o["$flushed"] = VStr(None, o["$content"].z()); o["$closed"] = VBool(T); return NONE
    c = x.contracts
    c[("FileObj", "write")] = f_write; c[("FileObj", "flush")] = f_flush; c[("FileObj", "close")] = f_close
    c[("FileObj", "isatty")] = lambda x_, recv, args, kwargs, st: st.heap[recv.oid].get("$tty", VBool(F))
    def hasattr_(x_, args, st, n):
        o, name = args
        if isinstance(o, VOpt): o = x_.need(st, o, "AttributeError", n)
        if isinstance(o, VRef) and o.cls == "FileObj":
            if name.py == "encoding": return VBool(st.heap[o.oid]["$text"].t)
            if name.py == "isatty": return VBool(T)
        if isinstance(o, VStr): return VBool(F)
        raise Unsupported(f"hasattr({type(o).__name__}, {name.py})")
    x.ext["hasattr"] = hasattr_
    def str_decode(x_, recv, args, kwargs, st, n):
        # A-str: decode('utf-8') of bytes produced by bytes(s, 'utf-8') is s; any other codec gives some other text
        if args and isinstance(args[0], VStr) and args[0].py == "utf-8": return VStr(recv.py, recv.term)
        dec = z3.Function("decode_with", z3.StringSort(), z3.StringSort(), z3.StringSort())
        codec = args[0].z() if args and isinstance(args[0], VStr) else z3.StringVal("?")
        return VStr(None, dec(recv.z(), codec))
    x.ext["str.decode"] = str_decode
    def path_ctor(x_, recv, args, kwargs, st): return st.alloc("Path", {"$p": args[0]})
    c[("Path", "__new__")] = path_ctor
    x.ext_names["Path"] = VClass("Path")
    c[("Path", "@parent")] = lambda x_, recv, args, kwargs, st: st.alloc("Path", {"$p": VStr("<parent>")})
    c[("Path", "mkdir")] = lambda x_, recv, args, kwargs, st: NONE
    def p_open(x_, recv, args, kwargs, st):
        """assumed: Path.open('wb+') returns a fresh binary file object whose content is empty (create / truncate)"""
        x_.ghost.setdefault("opened", []).append(args[0] if args else None)
        return st.alloc("FileObj", {"$content": VStr(""), "$text": VBool(F), "$closed": VBool(F), "$flushed": VStr(""), "$fresh": VBool(T)})
    c[("Path", "open")] = p_open


def file_content(heap, fw):
    f = heap[fw.oid]["_file"]
    return heap[f.oid]["$content"].z()


for _kind in ("path", "text", "binary"):
    for _conn in (True, False):
        def _mkfw(kind, conn):
            @unit(f"FileWriter.write[{kind},{'connected' if conn else 'not connected'}]", ["C14"])
            def u(ctx):
                st = State(T, {}, {}, []); x = ctx.executor(); install_files(x)
                fw, fobj, written = mk_filewriter(st, kind, conn)
                data = VStr(None, fresh("data", z3.StringSort())); data.is_bytes = True
                h0 = st.snap()
                exits = ctx.run(x, "FileWriter.write", [fw, data], {}, st)
                covers(ctx, exits); never_raises(ctx, exits)
                for e in exits:
                    if e.kind != "return": continue
                    ctx.check("the writer is connected afterwards", NOT(as_opt(e.heap[fw.oid]["_file"]).none), e, None, "post")
                    f1 = e.heap[fw.oid]["_file"]
                    if not isinstance(f1, VRef): continue
                    c1 = e.heap[f1.oid]["$content"].z()
                    if conn:
                        ctx.check("the statement is appended to the file, byte for byte (text streams: its utf-8 decoding)", c1 == z3.Concat(h0[fobj.oid]["$content"].z(), data.z()), e, None, "post")
                        ctx.check("the same file object is used", z3.BoolVal(f1.oid == fobj.oid), e, None, "frame")
                    elif kind == "path":
                        # first write of a writer that is not connected opens the path: the file then holds exactly this statement.
                        # With earlier output (written != ''), e.g. after teardown() and re-registration, the earlier lines are gone: known finding
                        ctx.check("after (re)connecting, the file holds everything written through this writer so far",
                                  c1 == z3.Concat(written.z(), data.z()), e, None, "post",
                                  known=("KF-C14-path-reconnect-truncates", z3.Length(written.z()) > 0))
                        ctx.check("a path output is opened in binary create/truncate mode 'wb+'", z3.BoolVal([a.py if a is not None else None for a in x.ghost.get("opened", [])] == ["wb+"]), e, None, "post")
                    else:
                        ctx.check("the statement is appended to the caller's stream", c1 == z3.Concat(h0[fobj.oid]["$content"].z(), data.z()), e, None, "post")
                    if kind != "path":
                        ctx.check("terminal streams are flushed after every write", IMP(e.heap[fw.oid]["_is_terminal"].t, e.heap[f1.oid]["$flushed"].z() == c1), e, None, "post")
                ctx.trust("file object contract (assumed): write(x) appends x; flush()/close() publish the content; Path.open('wb+') creates/truncates",
                          "A-str: statement.decode('utf-8') of bytes made by bytes(s, 'utf-8') is s")
            return u
        _mkfw(_kind, _conn)


@unit("FileWriter.flush", ["C14"])
def u_fflush(ctx):
    for kind in ("path", "binary"):
        for conn in (True, False):
            st = State(T, {}, {}, []); x = ctx.executor(); install_files(x)
            fw, fobj, written = mk_filewriter(st, kind, conn)
            exits = ctx.run(x, "FileWriter.flush", [fw], {}, st)
            never_raises(ctx, exits, tag=f"[{kind},{conn}]")
            for e in exits:
                if e.kind == "return" and conn:
                    ctx.check(f"[{kind}] after flush() the published content is everything written so far", e.heap[fobj.oid]["$flushed"].z() == e.heap[fobj.oid]["$content"].z(), e, None, "post")


@unit("FileWriter.disconnect", ["C14"])
def u_fdisc(ctx):
    for kind in ("path", "text"):
        for conn in (True, False):
            st = State(T, {}, {}, []); x = ctx.executor(); install_files(x)
            fw, fobj, written = mk_filewriter(st, kind, conn)
            exits = ctx.run(x, "FileWriter.disconnect", [fw, VBool(fresh("wait", z3.BoolSort()))], {}, st)
            never_raises(ctx, exits, tag=f"[{kind},{conn}]")
            for e in exits:
                if e.kind != "return": continue
                ctx.check(f"[{kind},{conn}] the writer is disconnected", as_opt(e.heap[fw.oid]["_file"]).none, e, None, "post")
                if conn and kind == "path":
                    ctx.check("a file the writer opened itself is closed (content published)", AND(e.heap[fobj.oid]["$closed"].t, e.heap[fobj.oid]["$flushed"].z() == e.heap[fobj.oid]["$content"].z()), e, None, "post")
                if conn and kind != "path":
                    ctx.check("a stream supplied by the caller is left open", NOT(e.heap[fobj.oid]["$closed"].t), e, None, "post")
