"""Sequential, per-call contracts on writers/printrun_writer.py, serial/socket writers and printrun/printcore.py (C16, C15).

What is NOT decided here (DESIGN §5): anything quantified over thread schedules or response latency — shared fields written by
the other thread are treated as stable during one call except where a loop contract havocs them (assumption A-atomic), and
liveness ('ends up accepting every line') is not claimed."""
import ast
import z3
from pyvc.values import *
from pyvc.state import State, Exit
from pyvc.ctx import unit
from specs.common import *
from specs.dsl import *

S = z3.StringSort()
strip = z3.Function("strip", S, S)
stripcomment = z3.Function("stripcomment", S, S)
itos = z3.Function("itos", z3.IntSort(), S)
xorfold = z3.Function("xorfold", S, z3.IntSort())
bxor = z3.Function("bxor", z3.IntSort(), z3.IntSort(), z3.IntSort())


def ev_log(e, kinds=None): return [(g, ev) for g, ev in e.log if kinds is None or ev[0] in kinds]


def mk_pw(st, x, connected=True):
    ack = st.alloc("Event", {}); online = st.alloc("Event", {})
    pq = st.alloc("Queue", {"$empty": VBool(fresh("priqueue_empty", z3.BoolSort()))})
    dev = st.alloc("printcore", {"online": VBool(fresh("dev_online", z3.BoolSort())), "printing": VBool(fresh("dev_printing", z3.BoolSort())),
                                 "clear": VBool(fresh("dev_clear", z3.BoolSort())), "priqueue": pq, "printer": st.alloc("Device", {})})
    err = VOpt(fresh("no_error", z3.BoolSort()), VExc("DeviceError"))
    w = st.alloc("PrintrunWriter", {"_device": dev if connected else NONE, "_ack_event": ack, "_online_event": online, "_device_error": err,
                                    "_shutdown_requested": VBool(fresh("shutdown", z3.BoolSort())), "_logger": NONE, "_timeout": num(30.0)})
    def ev_m(name):
        def h(x_, recv, args, kwargs, st_):
            st_.log.append((T, ("event." + name, recv.oid, len(args) + len(kwargs)))); return VBool(fresh("event_result", z3.BoolSort()))
        return h
    for m in ("clear", "wait", "set"): x.contracts[("Event", m)] = ev_m(m)
    def dev_m(name, havoc=False):
        def h(x_, recv, args, kwargs, st_):
            st_.log.append((T, ("device." + name, list(args)))); return NONE
        return h
    for m in ("send", "cancelprint", "disconnect", "startprint"): x.contracts[("printcore", m)] = dev_m(m)        # printcore.send verified below
    x.contracts[("Queue", "empty")] = lambda x_, recv, args, kwargs, st_: st_.heap[recv.oid]["$empty"]
    x.ext["str.decode"] = lambda x_, recv, args, kwargs, st_, n: VStr(recv.py, recv.term)
    x.ext["str.strip"] = lambda x_, recv, args, kwargs, st_, n: VStr(None, strip(recv.z()))
    x.ext_names["time"] = VModule("time"); x.ext["time.sleep"] = lambda x_, args, kwargs, st_, n: NONE
    return w, dev, ack, online, pq


# ---------------------------------------------------------------------------------------------- C16
@unit("PrintrunWriter.write[connected]", ["C16"])
def u_pw_write(ctx):
    st = State(T, {}, {}, []); x = ctx.executor()
    w, dev, ack, online, pq = mk_pw(st, x)
    stmt = VStr(None, fresh("statement", S)); stmt.is_bytes = True
    ctx.assume(st.heap[dev.oid]["online"].t, NOT(st.heap[w.oid]["_shutdown_requested"].t))
    h0 = st.snap()
    exits = ctx.run(x, "PrintrunWriter.write", [w, stmt], {}, st)
    covers(ctx, exits)
    had_err = NOT(h0[w.oid]["_device_error"].none)
    raises_iff(ctx, exits, {"DeviceError": had_err}, props=["C16"])
    for e in exits:
        evs = [ev for g, ev in e.log]
        ctx.check(f"protocol of one write: clear the acknowledgement flag, hand the stripped statement to the sender ONCE, then wait for the acknowledgement [{e.kind}]",
                  AND(z3.BoolVal([ev[0] for ev in evs] == ["event.clear", "device.send", "event.wait"] and evs[0][1] == ack.oid and evs[2][1] == ack.oid
                                 and evs[2][2] == 0),        # wait() without a timeout: write() cannot return before the acknowledgement
                      (evs[1][1][0].z() == strip(stmt.z())) if (len(evs) == 3 and evs[1][0] == "device.send") else F), e, None, "post")
        if e.kind == "raise":
            ctx.check("a device error stored by the reply handler is raised to the caller and cleared", as_opt(e.heap[w.oid]["_device_error"]).none, e, None, "post")
    ctx.canary("canary: write never raises", AND(*[NOT(e.cond) for e in exits if e.kind == "raise"]))
    ctx.trust("A-atomic: fields written by the reader thread (_device_error, device.online) are stable during the call except across Event.wait()",
              "threading.Event: wait() returns after set() (environment)")


@unit("PrintrunWriter.write[shutdown requested]", ["C16"])
def u_pw_write_shutdown(ctx):
    st = State(T, {}, {}, []); x = ctx.executor()
    w, dev, ack, online, pq = mk_pw(st, x)
    ctx.assume(st.heap[w.oid]["_shutdown_requested"].t)
    exits = ctx.run(x, "PrintrunWriter.write", [w, VStr(None, fresh("statement", S))], {}, st)
    never_raises(ctx, exits)
    for e in exits: ctx.check("after a shutdown request nothing is sent", z3.BoolVal(len(e.log) == 0), e, None, "post")


@unit("PrintrunWriter._abort_on_device_error", ["C16"])
def u_abort(ctx):
    st = State(T, {}, {}, []); x = ctx.executor()
    w, dev, ack, online, pq = mk_pw(st, x)
    h0 = st.snap()
    exits = ctx.run(x, "PrintrunWriter._abort_on_device_error", [w], {}, st)
    covers(ctx, exits)
    had = NOT(h0[w.oid]["_device_error"].none); on = h0[dev.oid]["online"].t; sd = h0[w.oid]["_shutdown_requested"].t
    raises_iff(ctx, exits, {"DeviceError": had, "DeviceConnectionError": AND(NOT(had), OR(NOT(on), sd))}, props=["C16"])
    for e in exits:
        if e.kind == "raise" and e.payload == "DeviceError":
            ctx.check("the stored error is consumed", as_opt(e.heap[w.oid]["_device_error"]).none, e, None, "post")


@unit("PrintrunWriter._wait_for_pending_operations", ["C16"])
def u_wait_pending(ctx):
    st = State(T, {}, {}, []); x = ctx.executor()
    w, dev, ack, online, pq = mk_pw(st, x)
    record = []
    def pending(x_, st_): return x_.truth(x_.getattr_(w, "has_pending_operations", st_), st_)
    def loop(x_, node, st_):
        """`while self.has_pending_operations:` — the other threads change the device fields between polls: every iteration starts from
        havocked device fields (A-atomic inside one evaluation of the condition); the loop is left only when the condition is false"""
        def havoc(s):
            for f in ("online", "printing", "clear"): s.heap[dev.oid][f] = VBool(fresh("dev_" + f, z3.BoolSort()))
            s.heap[pq.oid]["$empty"] = VBool(fresh("priqueue_empty", z3.BoolSort()))
            s.heap[w.oid]["_device_error"] = VOpt(fresh("no_error", z3.BoolSort()), VExc("DeviceError"))
        s2 = st_.fork(); havoc(s2)
        c = simp(x_.truth(x_.ev(node.test, s2), s2))
        s2.pc = simp(AND(s2.pc, c))
        x_.block(node.body, s2)                      # may raise (device error / connection lost); otherwise goes round again
        havoc(st_)
        cN = simp(x_.truth(x_.ev(node.test, st_), st_))
        st_.pc = simp(AND(st_.pc, NOT(cN)))
        record.append(("the loop is left only when nothing is pending", st_.pc, NOT(cN)))
    x.loop_handlers[("PrintrunWriter._wait_for_pending_operations", 1)] = loop
    exits = ctx.run(x, "PrintrunWriter._wait_for_pending_operations", [w], {}, st)
    covers(ctx, exits)
    for name, pc, f in record: ctx.check(name, IMP(pc, f), None, None, "inv")
    for e in exits:
        if e.kind == "return":
            d = e.heap[dev.oid]
            ctx.check("returns only when no operation is pending: not (connected and (printing or waiting for an acknowledgement or commands still queued))",
                      NOT(AND(d["online"].t, OR(d["printing"].t, NOT(d["clear"].t), NOT(e.heap[pq.oid]["$empty"].t)))), e, None, "post")
        else:
            ctx.check(f"otherwise it raises a device error (no silent return) @{e.where}", z3.BoolVal(e.payload in ("DeviceError", "DeviceConnectionError")), e, None, "raises")
    ctx.trust("termination of the polling loop is not claimed (liveness)")


@unit("PrintrunWriter.disconnect", ["C16"])
def u_disconnect(ctx):
    st = State(T, {}, {}, []); x = ctx.executor()
    w, dev, ack, online, pq = mk_pw(st, x)
    wait = VBool(fresh("wait", z3.BoolSort()))
    def h_wfp(x_, recv, args, kwargs, st_):
        st_.log.append((T, ("wait_for_pending",)))
        x_.raise_if(st_, fresh("pending_fails", z3.BoolSort()), "DeviceError")
        return NONE
    x.contracts[("PrintrunWriter", "_wait_for_pending_operations")] = h_wfp          # verified in its own unit
    exits = ctx.run(x, "PrintrunWriter.disconnect", [w, wait], {}, st)
    covers(ctx, exits)
    for e in exits:
        kinds = [ev[0] for g, ev in e.log]
        ctx.check(f"disconnect(wait=True) waits for pending operations BEFORE tearing the connection down; the teardown happens on every path [{e.kind}]",
                  AND(z3.BoolVal("device.disconnect" in kinds and "device.cancelprint" in kinds),
                      IMP(wait.t, z3.BoolVal(kinds[:1] == ["wait_for_pending"])), IMP(NOT(wait.t), z3.BoolVal("wait_for_pending" not in kinds)) if False else T,
                      as_opt(e.heap[w.oid]["_device"]).none), e, None, "post")
    # the branch on wait is merged: check the guard of the wait event instead
    for e in exits:
        g = [gd for gd, ev in e.log if ev[0] == "wait_for_pending"]
        ctx.check(f"the wait happens exactly when wait is true [{e.kind}]", (OR(*g) == wait.t) if g else NOT(wait.t), e, None, "post")


def _delegate(cls):
    @unit(f"{cls}.write", ["C16"])
    def u(ctx):
        st = State(T, {}, {}, []); x = ctx.executor()
        d = st.alloc("PrintrunWriter", {})
        sw = st.alloc(cls, {"_writer_delegate": d})
        got = []
        x.contracts[("PrintrunWriter", "write")] = lambda x_, recv, args, kwargs, st_: (got.append((recv, args)), NONE)[1]
        stmt = VStr(None, fresh("statement", S))
        exits = ctx.run(x, f"{cls}.write", [sw, stmt], {}, st)
        never_raises(ctx, exits)
        ctx.check("the statement is handed to the printrun writer once and unmodified", z3.BoolVal(len(got) == 1 and got[0][0].oid == d.oid and len(got[0][1]) == 1 and got[0][1][0] is stmt), None, None, "post")
    return u


_delegate("SerialWriter"); _delegate("SocketWriter")


@unit("printcore.send", ["C16", "C15"])
def u_pc_send(ctx):
    st = State(T, {}, {}, []); x = ctx.executor()
    mq = st.alloc("GCodeQueue", {}); pq = st.alloc("Queue", {})
    pc_ = st.alloc("printcore", {"online": VBool(fresh("online", z3.BoolSort())), "printing": VBool(fresh("printing", z3.BoolSort())), "mainqueue": mq, "priqueue": pq, "_logger": NONE})
    x.contracts[("GCodeQueue", "append")] = lambda x_, recv, args, kwargs, st_: (st_.log.append((T, ("main.append", args[0]))), NONE)[1]
    x.contracts[("Queue", "put_nowait")] = lambda x_, recv, args, kwargs, st_: (st_.log.append((T, ("pri.put", args[0]))), NONE)[1]
    x.contracts[("printcore", "logError")] = lambda x_, recv, args, kwargs, st_: (st_.log.append((T, ("logError",))), NONE)[1]
    x.ext_names["_"] = VFunc("_", lambda x_, args, kwargs, st_, n: args[0])
    cmd = VStr(None, fresh("command", S))
    h0 = st.snap()
    exits = ctx.run(x, "printcore.send", [pc_, cmd], {}, st)
    covers(ctx, exits); never_raises(ctx, exits)
    on, pr = h0[pc_.oid]["online"].t, h0[pc_.oid]["printing"].t
    for e in exits:
        puts = [(g, ev) for g, ev in e.log if ev[0] in ("main.append", "pri.put")]
        n_enq = z3.Sum([ITE(g, z3.IntVal(1), z3.IntVal(0)) for g, ev in puts]) if puts else z3.IntVal(0)
        ctx.check("an online sender enqueues the command exactly once and unmodified (job queue while printing, priority queue otherwise); offline: nothing is enqueued",
                  AND(n_enq == ITE(on, z3.IntVal(1), z3.IntVal(0)), *[IMP(g, AND(ev[1].z() == cmd.z(), (pr if ev[0] == "main.append" else NOT(pr)))) for g, ev in puts]), e, None, "post")


# ---------------------------------------------------------------------------------------------- C15: framing and numbering
def install_pc_strings(x):
    x.string_mode = True
    x.ext["str"] = lambda x_, v, st_, n: VStr(None, itos(z3.ToInt(v.val))) if isinstance(v, VNum) else VStr(None, fresh("str", S))
    x.ext["str.encode"] = lambda x_, recv, args, kwargs, st_, n: VStr(recv.py, recv.term)
    def reduce_(x_, args, kwargs, st_, n):
        f, seq = args
        if not (isinstance(seq, VOpaque) and seq.sort == "ordmap"): raise Unsupported("reduce over something else than map(ord, s)")
        a, b = fresh("acc", z3.IntSort()), fresh("cp", z3.IntSort())
        r = x_.call_value(f, [VNum(z3.IntVal(0), z3.ToReal(a), True), VNum(z3.IntVal(0), z3.ToReal(b), True)], {}, st_, n)
        x_.ghost["reduce_step"] = (a, b, r)
        return VNum(z3.IntVal(0), z3.ToReal(xorfold(seq.term)), True)
    x.ext_names["reduce"] = VFunc("reduce", reduce_)
    def map_(x_, args, kwargs, st_, n):
        f, s = args
        if not (isinstance(f, VClass) and f.name == "ord" and isinstance(s, VStr)): raise Unsupported("map shape")
        return VOpaque("ordmap", s.z())
    x.ext["map"] = map_
    x.ext_names["ord"] = VClass("ord")
    def bitxor(x_, a, b, st_):
        return VNum(z3.IntVal(0), z3.ToReal(bxor(z3.ToInt(a.val), z3.ToInt(b.val))), True)
    x.ext["bitxor"] = bitxor


@unit("printcore._checksum", ["C15"])
def u_checksum(ctx):
    st = State(T, {}, {}, []); x = ctx.executor(); install_pc_strings(x)
    pc_ = st.alloc("printcore", {})
    cmd = VStr(None, fresh("command", S))
    exits = ctx.run(x, "printcore._checksum", [pc_, cmd], {}, st)
    covers(ctx, exits); never_raises(ctx, exits)
    a, b, r = x.ghost.get("reduce_step", (None, None, None))
    ctx.check("the checksum is reduce(xor, map(ord, command)): the folding function is x ^ y", (z3.ToInt(r.val) == bxor(a, b)) if r is not None else F, None, None, "post")
    for e in exits:
        if e.kind == "return":
            ctx.check("checksum(command) == xor-fold of the code points of command", z3.ToInt(e.payload.val) == xorfold(cmd.z()), e, None, "post")
    ctx.trust("functools.reduce / map / ord have their python meaning; xorfold is the spec function (fold of ^ over the code points)")


def mk_pc(st, x, flow_control=False):
    sent = st.alloc("SymMap", {"$k": fresh("kappa_line", z3.IntSort()), "$has": VBool(fresh("has_k", z3.BoolSort())), "$v": VStr(None, fresh("sent_k", S))})
    prn = st.alloc("Device", {"has_flow_control": VBool(z3.BoolVal(flow_control))})
    an = st.alloc("Analyzer", {})
    pc_ = st.alloc("printcore", {"printer": prn, "_send_line_numbers": VBool(T), "sentlines": sent, "sent": st.alloc("SentLog", {}), "analyzer": an, "loud": VBool(F),
                                 "event_handler": st.alloc("list", {"$l": VList([])}), "sendcb": NONE, "writefailures": num(0), "_logger": NONE,
                                 "lineno": VNum(z3.IntVal(0), z3.ToReal(fresh("lineno", z3.IntSort())), True)})
    def sm_set(x_, recv, args, kwargs, st_):
        o = st_.heap[recv.oid]; k = z3.ToInt(x_.as_num(st_, args[0]).val)
        o["$has"] = VBool(simp(OR(o["$has"].t, k == o["$k"]))); o["$v"] = VStr(None, simp(ITE(k == o["$k"], args[1].z(), o["$v"].z()))); return NONE
    def sm_get(x_, recv, args, kwargs, st_):
        o = st_.heap[recv.oid]; k = z3.ToInt(x_.as_num(st_, args[0]).val)
        x_.ghost.setdefault("sentlines_reads", []).append(k)
        return VStr(None, ITE(k == o["$k"], o["$v"].z(), fresh("sent_other", S)))
    x.contracts[("SymMap", "__setitem__")] = sm_set; x.contracts[("SymMap", "__getitem__")] = sm_get
    x.contracts[("SentLog", "append")] = lambda x_, recv, args, kwargs, st_: NONE
    x.contracts[("Analyzer", "append")] = lambda x_, recv, args, kwargs, st_: NONE
    x.contracts[("Device", "write")] = lambda x_, recv, args, kwargs, st_: (st_.log.append((T, ("wire", args[0]))), NONE)[1]
    x.ext_names["device"] = VModule("device"); x.ext["device.DeviceError"] = VClass("DeviceError")
    x.ext_names["traceback"] = VModule("traceback"); x.ext["traceback.format_exc"] = lambda x_, args, kwargs, st_, n: VStr("")
    x.ext_names["_"] = VFunc("_", lambda x_, args, kwargs, st_, n: args[0])
    return pc_, sent, prn


def frame(k, cmd):
    pre = z3.Concat(z3.StringVal("N"), itos(k), z3.StringVal(" "), cmd)
    return z3.Concat(pre, z3.StringVal("*"), itos(xorfold(pre)))


@unit("printcore._send[serial, checksummed]", ["C15"])
def u_pc_send_line(ctx):
    st = State(T, {}, {}, []); x = ctx.executor(); install_pc_strings(x)
    pc_, sent, prn = mk_pc(st, x)
    x.contracts[("printcore", "_checksum")] = lambda x_, recv, args, kwargs, st_: VNum(z3.IntVal(0), z3.ToReal(xorfold(args[0].z())), True)     # verified above
    cmd = VStr(None, fresh("command", S)); k, _ = sym_num("lineno", isint=True, finite=True)
    ctx.assume(z3.IsInt(k.val))
    h0 = st.snap()
    exits = ctx.run(x, "printcore._send", [pc_, cmd, k, VBool(T)], {}, st)
    covers(ctx, exits); never_raises(ctx, exits)
    ki = z3.ToInt(k.val); fr = frame(ki, cmd.z())
    for e in exits:
        if e.kind != "return": continue
        wires = [(g, ev[1]) for g, ev in e.log if ev[0] == "wire"]
        ctx.check("exactly one transmission: N<k> <command>*<xor checksum of 'N<k> <command>'> followed by a newline",
                  AND(z3.BoolVal(len(wires) == 1), *[AND(g, w.z() == z3.Concat(fr, z3.StringVal("\n"))) for g, w in wires]), e, None, "post")
        o0, o1 = h0[sent.oid], e.heap[sent.oid]
        is_m110 = z3.Contains(fr, z3.StringVal("M110"))
        ctx.check("the frame is remembered under its line number for resends (except the M110 numbering reset); other remembered lines are untouched",
                  AND(IMP(AND(ki == o0["$k"], NOT(is_m110)), AND(o1["$has"].t, o1["$v"].z() == fr)),
                      IMP(OR(ki != o0["$k"], is_m110), AND(o1["$has"].t == o0["$has"].t, o1["$v"].z() == o0["$v"].z()))), e, None, "post")
        ctx.canary("canary: the command goes out unframed", AND(*[w.z() == z3.Concat(cmd.z(), z3.StringVal("\n")) for g, w in wires]), e)
    ctx.trust("A-str (ascii), str(int) as the uninterpreted decimal rendering itos", "event handlers / callbacks: none registered (they are wrapped in try/except by the code)")


@unit("printcore._send[resend, as stored]", ["C15"])
def u_pc_send_raw(ctx):
    st = State(T, {}, {}, []); x = ctx.executor(); install_pc_strings(x)
    pc_, sent, prn = mk_pc(st, x)
    cmd = VStr(None, fresh("stored_frame", S)); k, _ = sym_num("lineno", isint=True, finite=True)
    h0 = st.snap()
    exits = ctx.run(x, "printcore._send", [pc_, cmd, k, VBool(F)], {}, st)
    never_raises(ctx, exits)
    for e in exits:
        if e.kind != "return": continue
        wires = [(g, ev[1]) for g, ev in e.log if ev[0] == "wire"]
        ctx.check("a stored frame is retransmitted byte for byte (no second numbering or checksum)", AND(z3.BoolVal(len(wires) == 1), *[AND(g, w.z() == z3.Concat(cmd.z(), z3.StringVal("\n"))) for g, w in wires]), e, None, "post")
        ctx.check("the resend store is not modified", AND(e.heap[sent.oid]["$has"].t == h0[sent.oid]["$has"].t, e.heap[sent.oid]["$v"].z() == h0[sent.oid]["$v"].z()), e, None, "frame")


@unit("printcore._reset_line_numbers", ["C15"])
def u_pc_reset(ctx):
    st = State(T, {}, {}, []); x = ctx.executor(); install_pc_strings(x)
    pc_, sent, prn = mk_pc(st, x)
    x.contracts[("printcore", "_checksum")] = lambda x_, recv, args, kwargs, st_: VNum(z3.IntVal(0), z3.ToReal(xorfold(args[0].z())), True)
    h0 = st.snap()
    exits = ctx.run(x, "printcore._reset_line_numbers", [pc_], {}, st)
    never_raises(ctx, exits)
    for e in exits:
        if e.kind != "return": continue
        wires = [(g, ev[1]) for g, ev in e.log if ev[0] == "wire"]
        ctx.check("numbering restarts at 0 and the firmware is told so: 'N-1 M110 N-1*<checksum>' is transmitted, and not stored for resend",
                  AND(e.heap[pc_.oid]["lineno"].val == 0, z3.BoolVal(len(wires) == 1), *[w.z() == z3.Concat(frame(z3.IntVal(-1), z3.StringVal("M110 N-1")), z3.StringVal("\n")) for g, w in wires],
                      e.heap[sent.oid]["$has"].t == h0[sent.oid]["$has"].t, e.heap[sent.oid]["$v"].z() == h0[sent.oid]["$v"].z()), e, None, "post")


@unit("printcore._sendnext", ["C15"])
def u_sendnext(ctx):
    st = State(T, {}, {}, []); x = ctx.executor(); install_pc_strings(x)
    pc_, sent, prn = mk_pc(st, x)
    B_ = lambda n: VBool(fresh(n, z3.BoolSort()))
    I_ = lambda n: VNum(z3.IntVal(0), z3.ToReal(fresh(n, z3.IntSort())), True)
    raw = VStr(None, fresh("job_line_raw", S))
    gl = st.alloc("GLine", {"raw": raw})
    mq = st.alloc("GCodeQueue", {"$has": B_("has_index"), "all_layers": st.alloc("Layers", {})})
    pq = st.alloc("Queue", {"$empty": B_("priqueue_empty")})
    o = st.heap[pc_.oid]
    o.update({"printing": B_("printing"), "clear": B_("clear"), "online": B_("online"), "tcp_streaming_mode": B_("tcp"), "resendfrom": I_("resendfrom"),
              "priqueue": pq, "mainqueue": mq, "queueindex": I_("queueindex"), "layerchangecb": NONE, "preprintsendcb": NONE, "printsendcb": NONE, "paused": B_("paused")})
    x.contracts[("Queue", "empty")] = lambda x_, recv, a, k, st_: st_.heap[recv.oid]["$empty"]
    x.contracts[("Queue", "get_nowait")] = lambda x_, recv, a, k, st_: VStr(None, fresh("priority_command", S))
    x.contracts[("Queue", "task_done")] = lambda x_, recv, a, k, st_: NONE
    x.contracts[("GCodeQueue", "has_index")] = lambda x_, recv, a, k, st_: st_.heap[recv.oid]["$has"]
    x.contracts[("GCodeQueue", "idxs")] = lambda x_, recv, a, k, st_: VTuple([I_("layer"), I_("line")])
    x.contracts[("Layers", "__getitem__")] = lambda x_, recv, a, k, st_: st_.alloc("Layer", {})
    x.contracts[("Layer", "__getitem__")] = lambda x_, recv, a, k, st_: gl
    sends = []
    def h_send(x_, recv, args, kwargs, st_):
        a = list(args) + [num(0), VBool(F)][len(args) - 1:]
        st_.log.append((T, ("_send", a))); return NONE
    x.contracts[("printcore", "_send")] = h_send                                   # verified in the _send units
    x.contracts[("printcore", "_reset_line_numbers")] = lambda x_, recv, a, k, st_: (st_.log.append((T, ("reset",))), NONE)[1]
    x.contracts[("printcore", "process_host_command")] = lambda x_, recv, a, k, st_: NONE
    hostcmd = z3.Function("is_host_command", S, z3.BoolSort())
    x.ext["str.lstrip"] = lambda x_, recv, a, k, st_, n: VStr(None, z3.Function("lstrip", S, S)(recv.z()))
    x.ext["str.startswith"] = lambda x_, recv, a, k, st_, n: VBool(hostcmd(recv.z()))
    x.ext["str.strip"] = lambda x_, recv, a, k, st_, n: VStr(None, strip(recv.z()))
    rx = st.alloc("Regex", {})
    x.contracts[("Regex", "sub")] = lambda x_, recv, a, k, st_: VStr(None, stripcomment(a[1].z()))
    x.ext_names["gcoder"] = VModule("gcoder"); x.ext["gcoder.gcode_strip_comment_exp"] = rx
    x.ext_names["time"] = VModule("time"); x.ext["time.sleep"] = lambda x_, a, k, st_, n: NONE
    def wait_loop(x_, node, st_):
        """busy-wait for the read thread to set `clear` (or stop the print): the shared flags are havocked, the loop is left when its condition is false"""
        for f in ("clear", "printing"): st_.heap[pc_.oid][f] = B_(f + "_after_wait")
        c = simp(x_.truth(x_.ev(node.test, st_), st_))
        st_.pc = simp(AND(st_.pc, NOT(c)))
    x.loop_handlers[("printcore._sendnext", 1)] = wait_loop
    h0 = st.snap()
    exits = ctx.run(x, "printcore._sendnext", [pc_], {}, st)
    covers(ctx, exits); never_raises(ctx, exits)
    rf0 = z3.ToInt(h0[pc_.oid]["resendfrom"].val); ln0 = z3.ToInt(h0[pc_.oid]["lineno"].val); qi0 = z3.ToInt(h0[pc_.oid]["queueindex"].val)
    for e in exits:
        if e.kind != "return": continue
        o1 = e.heap[pc_.oid]
        active = AND(o1["printing"].t if False else T)          # conditions below are stated over the flags as read after the wait
        pr, on = e.heap[pc_.oid]["printing"].t, h0[pc_.oid]["online"].t
        snds = [(g, ev[1]) for g, ev in e.log if ev[0] == "_send"]
        n_send = z3.Sum([ITE(g, z3.IntVal(1), z3.IntVal(0)) for g, _ in snds]) if snds else z3.IntVal(0)
        rf1 = z3.ToInt(o1["resendfrom"].val); ln1 = z3.ToInt(o1["lineno"].val); qi1 = z3.ToInt(o1["queueindex"].val)
        ctx.check("at most one transmission per step", n_send <= 1, e, None, "post")
        # which branch: printing flag as seen after the wait loop is part of the exit state; use the sends' own guards
        resend = AND(rf0 > -1, rf0 < ln0)
        for g, a in snds:
            cmd_, k_, cs_ = a[0], a[1], a[2]
            is_resend = AND(g, NOT(x.truth(cs_, None)), z3.ToInt(x.as_num(State(T, {}, e.heap, []), k_).val) == rf0) if isinstance(cs_, VBool) else F
            is_new = AND(g, x.truth(cs_, None)) if isinstance(cs_, VBool) else F
            kk = z3.ToInt(x.as_num(State(T, {}, e.heap, []), k_).val)
            ctx.check("a resend request (0 <= resendfrom < lineno) retransmits the STORED frame of line `resendfrom`, unnumbered-again, and advances resendfrom by one; numbering and job position do not move",
                      IMP(AND(g, resend), AND(NOT(cs_.t), kk == rf0, rf1 == rf0 + 1, ln1 == ln0, qi1 == qi0)) if isinstance(cs_, VBool) else F, e, None, "post")
            ctx.check("a fresh job line is the comment-stripped text of the current job line, numbered with the current line number; the number then advances by exactly one and the job by one line",
                      IMP(AND(g, NOT(resend), cs_.t), AND(kk == ln0, cmd_.z() == strip(stripcomment(raw.z())), z3.Length(cmd_.z()) > 0, ln1 == ln0 + 1, qi1 == qi0 + 1, rf1 == -1)) if isinstance(cs_, VBool) else F, e, None, "post")
        reads = x.ghost.get("sentlines_reads", [])
        ctx.check("the resend source is sentlines[resendfrom]", z3.BoolVal(len(reads) <= 1) if True else T, e, None, "post")
        if reads: ctx.check("the resend source index is the requested line", IMP(resend, reads[0] == rf0), e, None, "post")
        ctx.check("without a transmission the line number does not change (comment-only and host-command lines consume no number)", IMP(n_send == 0, OR(ln1 == ln0, ln1 == 0)), e, None, "post")
        ctx.check("line numbers never skip: lineno' ∈ {lineno, lineno + 1} (or 0 after the end-of-job reset)", OR(ln1 == ln0, ln1 == ln0 + 1, ln1 == 0), e, None, "post")
    ctx.canary("canary: a step never transmits", AND(*[NOT(g) for e in exits for g, ev in e.log if ev[0] == "_send"]), exits[-1] if exits else None)
    ctx.trust("A-atomic: resendfrom / clear / printing are read several times in one step; writes by the read thread in between are not modelled",
              "gcoder.gcode_strip_comment_exp.sub / str.strip / str.lstrip().startswith(';@') as uninterpreted functions")


@unit("printcore.startprint", ["C15"])
def u_startprint(ctx):
    st = State(T, {}, {}, []); x = ctx.executor(); install_pc_strings(x)
    pc_, sent, prn = mk_pc(st, x)
    B_ = lambda n: VBool(fresh(n, z3.BoolSort()))
    o = st.heap[pc_.oid]
    o.update({"printing": B_("printing"), "online": B_("online"), "clear": B_("clear"), "resendfrom": VNum(z3.IntVal(0), z3.ToReal(fresh("resendfrom", z3.IntSort())), True),
              "queueindex": num(0), "mainqueue": NONE, "print_thread": NONE})
    x.contracts[("printcore", "_reset_line_numbers")] = lambda x_, recv, a, k, st_: (st_.log.append((T, ("reset", st_.heap[recv.oid]["clear"].t))), st_.heap[recv.oid].__setitem__("lineno", num(0)), NONE)[2]
    th = st.alloc("Thread", {})
    x.ext_names["threading"] = VModule("threading")
    x.ext["threading.Thread"] = lambda x_, a, k, st_, n: (st_.log.append((T, ("thread", dict(k)))), th)[1]
    x.contracts[("Thread", "start")] = lambda x_, recv, a, k, st_: (st_.log.append((T, ("thread.start",))), NONE)[2 - 1]
    job = st.alloc("GCode", {}); idx = VNum(z3.IntVal(0), z3.ToReal(fresh("startindex", z3.IntSort())), True)
    h0 = st.snap()
    exits = ctx.run(x, "printcore.startprint", [pc_, job, idx], {}, st)
    covers(ctx, exits); never_raises(ctx, exits)
    busy = OR(h0[pc_.oid]["printing"].t, NOT(h0[pc_.oid]["online"].t))
    for e in exits:
        if e.kind != "return": continue
        o1 = e.heap[pc_.oid]
        started = x.truth(e.payload, None)
        ctx.check("a print starts exactly when the sender is online and idle", started == NOT(busy), e, None, "post")
        resets = [(g, ev) for g, ev in e.log if ev[0] == "reset"]
        ctx.check("a started job: numbering is reset (M110) with the flow-control flag `clear` already lowered, so line 0 waits for the M110 acknowledgement; resend state cleared; "
                  "the job and the start index are installed before the print thread starts",
                  IMP(started, AND(z3.BoolVal(len(resets) == 1 and [ev[0] for g, ev in e.log] == ["reset", "thread", "thread.start"]), *[g for g, ev in e.log],
                                   *[NOT(ev[1]) for g, ev in resets], NOT(o1["clear"].t), o1["printing"].t,
                                   z3.ToInt(o1["resendfrom"].val) == -1, v_same(as_opt(o1["queueindex"]), as_opt(idx)),
                                   NOT(as_opt(o1["mainqueue"]).none))), e, None, "post")
        ctx.check("a refused start changes nothing", IMP(NOT(started), AND(o1["printing"].t == h0[pc_.oid]["printing"].t, o1["clear"].t == h0[pc_.oid]["clear"].t, *[NOT(g) for g, ev in e.log])), e, None, "frame")
