"""Small contract vocabulary shared by the unit files (raises-iff, frames, unchanged-on-raise, covers)."""
import z3
from pyvc.values import *
from specs.common import unchanged_obj


def raises_iff(ctx, exits, spec, props=None, known=None, tag=""):
    """spec: {ExcClass: condition over the PRE-state}.  Three kinds of obligations:
       sound     every exit raising C implies cond_C
       complete  cond_C implies that some exit raising C is taken
       closed    no exit raises a class outside the spec"""
    known = known or {}
    for e in exits:
        if e.kind != "raise": continue
        if e.payload not in spec:
            ctx.check(f"{tag}no-{e.payload}@{e.where}", F, e, props, "raises", known.get(("closed", e.payload)))
        else:
            ctx.check(f"{tag}{e.payload}-only-if@{e.where}", spec[e.payload], e, props, "raises", known.get(("sound", e.payload)))
    for cls, cond in spec.items():
        taken = OR(*[e.cond for e in exits if e.kind == "raise" and e.payload == cls])
        ctx.check(f"{tag}{cls}-if", IMP(cond, taken), None, props, "raises", known.get(("complete", cls)))


def never_raises(ctx, exits, props=None, known=None, tag=""):
    for e in exits:
        if e.kind == "raise":
            ctx.check(f"{tag}never-raises:{e.payload}@{e.where}", F, e, props, "raises", known)


def on_raise_unchanged(ctx, exits, h0, refs, props=None, known=None, tag="", skip=()):
    for e in exits:
        if e.kind != "raise": continue
        for name, ref in refs.items():
            ctx.check(f"{tag}unchanged({name})-on-{e.payload}@{e.where}", unchanged_obj(h0, e.heap, ref, skip=skip), e, props, "frame",
                      known(e) if callable(known) else known)


def frame(ctx, exits, h0, ref, modifies, props=None, name="self", tag=""):
    fields = [f for f in h0[ref.oid] if f not in modifies and not f.startswith("$")]
    for e in exits:
        ctx.check(f"{tag}frame({name})@{e.kind}{':' + e.payload if e.kind == 'raise' else ''}@{e.where}",
                  unchanged_obj(h0, e.heap, ref, fields=fields), e, props, "frame")


def post(ctx, exits, name, fn, props=None, known=None):
    for e in exits:
        if e.kind == "return":
            ctx.check(f"{name}@{e.where}", fn(e), e, props, "post", known)


def covers(ctx, exits, props=None, hint=None):
    for i, e in enumerate(exits):
        ctx.cover(f"reach:{e.kind}{':' + e.payload if e.kind == 'raise' else ''}@{e.where}#{i}", T, e, props, hint)


def exits_partition(ctx, exits, props=None):
    """the exits are exhaustive and pairwise exclusive (engine sanity; also lets a reader trust the case split)"""
    ctx.check("exits-exhaustive", OR(*[e.cond for e in exits]), None, props, "engine")
    for i in range(len(exits)):
        for j in range(i + 1, len(exits)):
            ctx.check(f"exits-exclusive#{i}/{j}", NOT(AND(exits[i].cond, exits[j].cond)), None, props, "engine")
