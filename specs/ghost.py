"""Reference interpreters over the abstract emission log (DESIGN §3.2, §3.3).  Written from the G-code semantics named in
the property statements, not from the builder's code.  A log is a list of (guard, ("emit", VStmt))."""
import z3
from pyvc.values import *
from specs.common import words_of, word, AXES


def emitted(log, start=0):
    return [(g, ev[1]) for g, ev in log[start:] if ev[0] == "emit"]


def cmd_is(stmt, *names):
    """the block's command word is one of names (blocks built by the builder carry at most one command word)"""
    if len(stmt.cmds) != 1: return F
    c = stmt.cmds[0]
    if c.py is not None: return z3.BoolVal(c.py in names)
    return OR(*[c.term == z3.StringVal(n) for n in names])


LINEAR = ("G0", "G00", "G1", "G01")
PROBE = ("G38.2", "G38.3", "G38.4", "G38.5")


# ---------------------------------------------------------------------------------------------- machine position (C01, C04)
class Machine:
    """independent interpreter state: x, y, z : VOpt(VNum) (none = unknown), rel : z3 Bool"""
    def __init__(self, x, y, z, rel):
        self.c = {"X": x, "Y": y, "Z": z}; self.rel = rel

    @staticmethod
    def fresh(prefix="M"):
        cs, wfs = [], []
        for a in "xyz":
            o, wf = opt_num(f"{prefix}_{a}", finite=True); cs.append(o); wfs.append(wf)
        return Machine(cs[0], cs[1], cs[2], fresh(prefix + "_rel", z3.BoolSort())), AND(*wfs)


def _axis_word(stmt, A):
    """(present, VNum) of axis word A in stmt"""
    for l, g, v in words_of(stmt.params):
        if l == A: return g, v
    return F, num(0)


def mstep(M, guard, stmt):
    """M' after executing block stmt (if guard) — G90/G91/G0/G1/G92/G28/G38.x semantics"""
    rel = ITE(AND(guard, cmd_is(stmt, "G91")), T, ITE(AND(guard, cmd_is(stmt, "G90")), F, M.rel))
    lin, g92, g28, prb = cmd_is(stmt, *LINEAR), cmd_is(stmt, "G92"), cmd_is(stmt, "G28"), cmd_is(stmt, *PROBE)
    anyax = OR(*[_axis_word(stmt, A)[0] for A in AXES])
    new = {}
    for A in AXES:
        cur = M.c[A]
        p, v = _axis_word(stmt, A)
        # linear move: absolute -> v ; relative -> cur + v when cur is known, else still unknown
        relv = VOpt(cur.none, n_add(cur.inner, v))
        moved = merge(simp(M.rel), relv, VOpt(F, v))
        after = cur
        after = merge(simp(AND(guard, lin, p)), moved, after)
        after = merge(simp(AND(guard, g92, p)), VOpt(F, v), after)
        after = merge(simp(AND(guard, g28, OR(p, NOT(anyax)))), VOpt(T, cur.inner), after)     # homing: position no longer known to the program
        after = merge(simp(AND(guard, prb, p)), VOpt(T, cur.inner), after)                    # probing stops at an unknown point on the probed axes
        new[A] = after
    return Machine(new["X"], new["Y"], new["Z"], rel)


def run_machine(M, log, start=0):
    for g, s in emitted(log, start): M = mstep(M, g, s)
    return M


def agree(M, axes, mode_idx, rel_idx):
    """R(machine, builder): same distance mode, and on every axis whose machine coordinate is known the builder reports
    exactly that coordinate"""
    cs = [M.rel == (mode_idx == rel_idx)]
    for A, b in zip(AXES, axes.items()):
        m = M.c[A]; b = as_opt(b)
        cs.append(IMP(NOT(m.none), AND(NOT(b.none), n_same(b.inner, m.inner) if b.inner is not None else F)))
    return AND(*cs)


def agree_T(M, axes, A3, b3):
    """R_T (C04): on every known machine axis, machine == (A·resolve(position) + b)[axis]"""
    res = [ITE(as_opt(c).none, z3.RealVal(0), as_opt(c).inner.val) for c in axes.items()]
    unk = [as_opt(c).none for c in axes.items()]
    cs = []
    for i, A in enumerate(AXES):
        img = b3[i].val + sum(A3[i][j].val * res[j] for j in range(3))
        m = M.c[A]
        # the image is defined only if it does not depend on a coordinate the builder does not know (after homing / probing)
        defined = AND(*[IMP(unk[j], A3[i][j].val == 0) for j in range(3)])
        cs.append(IMP(AND(NOT(m.none), defined), AND(m.inner.finite, m.inner.val == img)))
    return AND(*cs)


# ---------------------------------------------------------------------------------------------- modal state (C02, C03, C07)
TOOL_START = ("M03", "M04")
COOLANT_START = ("M07", "M08")
GUARDED_HALT = ("M06", "M00", "M01", "M02", "M30", "M60", "M109", "M190", "M191", "M400")


def count_emitted(log, start=0):
    return [g for g, _ in emitted(log, start)]
