"""Contracts on geometry/transform.py and geometry/transformer.py (C04 composition/apply, C13 state algebra)."""
import z3
from pyvc.values import *
from pyvc.state import State
from pyvc.ctx import unit
from specs.common import *
from specs.dsl import *
from specs import npmodel
from specs.npmodel import fin, matmul, arr

I4 = [[num(1.0 if i == j else 0.0) for j in range(4)] for i in range(4)]


def sym_mat(prefix, affine=True):
    return [[fin(fresh(f"{prefix}{i}{j}", z3.RealSort())) if (i < 3 or not affine) else num(1.0 if j == 3 else 0.0) for j in range(4)] for i in range(4)]


def tmat(p, sign=1):
    m = [[num(1.0 if i == j else 0.0) for j in range(4)] for i in range(4)]
    for i in range(3): m[i][3] = fin(p[i] if sign > 0 else -p[i])
    return m


def mat_eq(a, b):
    return AND(*[a[i][j].val == b[i][j].val for i in range(len(a)) for j in range(len(a[0]))])


def is_inverse(r, m):
    rm, mr = matmul(r, m), matmul(m, r)
    return AND(mat_eq(rm, I4), mat_eq(mr, I4))


def mk_transform(x, st, prefix="t"):
    """Transform object satisfying wf_tx: affine matrix, _inverse its inverse, pivot translations consistent"""
    M, R = sym_mat(prefix + "m"), sym_mat(prefix + "r")
    p = [fresh(f"{prefix}p{i}", z3.RealSort()) for i in range(3)]
    ref = st.alloc("Transform", {"_matrix": arr(x, st, M), "_inverse": arr(x, st, R),
                                 "_pivot": VPoint(*[VOpt(F, fin(c)) for c in p]),
                                 "_to_pivot": arr(x, st, tmat(p)), "_from_pivot": arr(x, st, tmat(p, -1))})
    return ref, is_inverse(R, M), dict(M=M, R=R, p=p)


def A(st_or_heap, ref, f):
    h = st_or_heap.heap if isinstance(st_or_heap, State) else st_or_heap
    return h[h[ref.oid][f].oid]["$a"]


def wf_tx(heap, ref):
    M, R = A(heap, ref, "_matrix"), A(heap, ref, "_inverse")
    p = [c.inner.val for c in heap[ref.oid]["_pivot"].items()]
    return AND(is_inverse(R, M), mat_eq(A(heap, ref, "_to_pivot"), tmat(p)), mat_eq(A(heap, ref, "_from_pivot"), tmat(p, -1)),
               *[M[3][j].val == (1 if j == 3 else 0) for j in range(4)])


# ---------------------------------------------------------------------------------------------- Transform
@unit("Transform.apply", ["C04", "C13"])
def u_apply(ctx):
    st = State(T, {}, {}, []); x = ctx.executor()
    t, wf, v = mk_transform(x, st)
    p, wfp = sym_point("p", finite=True)
    ctx.assume(wf, wfp)
    exits = ctx.run(x, "Transform.apply", [t, p], {}, st)
    covers(ctx, exits); never_raises(ctx, exits)
    res = [ITE(c.none, z3.RealVal(0), c.inner.val) for c in p.items()]
    for e in exits:
        if e.kind == "return":
            r = e.payload
            for i, a in enumerate("xyz"):
                img = v["M"][i][3].val + sum(v["M"][i][j].val * res[j] for j in range(3))
                c = getattr(r, a)
                ctx.check(f"apply(p).{a} == (A·resolve(p) + b).{a}", AND(NOT(c.none), c.inner.finite, c.inner.val == img), e, ["C04"], "post")
            ctx.canary("canary:x-unchanged", r.x.inner.val == res[0], e)
    ctx.trust("A-numpy: @, np.eye, np.array, np.diag, np.outer, slicing and .copy() have their mathematical meaning over the reals")


@unit("Transform.reverse∘apply", ["C13"])
def u_reverse(ctx):
    """reverse(apply(p)) == resolve(p), using wf_tx (_inverse·_matrix == I) and associativity of the matrix-vector product
    (lemma Mat4.mulVec_assoc, lemmas/Mat4.lean) instantiated at (R, M, v)"""
    st = State(T, {}, {}, []); x = ctx.executor()
    t, wf, v = mk_transform(x, st)
    p, wfp = sym_point("p", finite=True)
    ctx.assume(wf, wfp)
    e1 = [e for e in ctx.run(x, "Transform.apply", [t, p], {}, st) if e.kind == "return"]
    q = e1[0].payload
    st2 = State(T, {}, e1[0].heap, [])
    exits = ctx.run(x, "Transform.reverse", [t, q], {}, st2)
    covers(ctx, exits); never_raises(ctx, exits)
    res = [ITE(c.none, z3.RealVal(0), c.inner.val) for c in p.items()]
    # lemma instance: R·(M·v) == (R·M)·v   (ring identity; proved once in Lean for all 4x4 matrices over a commutative ring)
    vec = [fin(r) for r in res] + [num(1.0)]
    Mv = matmul(v["M"], vec); RM = matmul(v["R"], v["M"])
    lhs, rhs = matmul(v["R"], Mv), matmul(RM, vec)
    lemma = AND(*[lhs[i].val == rhs[i].val for i in range(4)])
    ctx.check("lemma-instance Mat4.mulVec_assoc(R, M, v) is a polynomial identity", lemma, None, ["C13"], "lemma")
    ctx.assume(lemma)
    for e in exits:
        if e.kind == "return":
            for i, a in enumerate("xyz"):
                c = getattr(e.payload, a)
                # a coordinate that is exactly 0 comes back as 0 (to_vector maps falsy coordinates to 0; same value)
                ctx.check(f"reverse(apply(p)).{a} == resolve(p).{a}", AND(NOT(c.none), c.inner.val == res[i]), e, ["C13"], "post")


@unit("Transform._chain_matrix", ["C04", "C13"])
def u_chain(ctx):
    st = State(T, {}, {}, []); x = ctx.executor()
    t, wf, v = mk_transform(x, st)
    K = sym_mat("k")
    ctx.assume(wf)
    h0 = st.snap()
    exits = ctx.run(x, "Transform._chain_matrix", [t, arr(x, st, K)], {}, st)
    covers(ctx, exits)
    S = matmul(matmul(tmat(v["p"]), K), tmat(v["p"], -1))
    for e in exits:
        if e.kind == "raise":
            ctx.check(f"only LinAlgError (singular composition) @{e.where}", z3.BoolVal(e.payload == "LinAlgError"), e, ["C04"], "raises")
            ctx.check("state unchanged on raise", mat_eq(A(e.heap, t, "_matrix"), v["M"]), e, ["C13"], "frame")
            continue
        ctx.check("matrix' == T(p)·K·T(-p)·matrix  (left composition about the pivot)", mat_eq(A(e.heap, t, "_matrix"), matmul(S, v["M"])), e, ["C04", "C13"], "post")
        ctx.check("wf_tx preserved (inverse', pivot translations, affine bottom row)", wf_tx(e.heap, t), e, ["C04", "C13"], "inv")
        ctx.check("pivot unchanged", v_same(e.heap[t.oid]["_pivot"], h0[t.oid]["_pivot"]), e, ["C13"], "frame")
        ctx.canary("canary:matrix' == K·matrix", mat_eq(A(e.heap, t, "_matrix"), matmul(K, v["M"])), e)
    # pure algebra: a K with no translation part fixes the pivot after conjugation (C13 'rotations and scalings leave the pivot fixed')
    K0 = [[K[i][j] if j < 3 or i == 3 else num(0.0) for j in range(4)] for i in range(4)]
    S0 = matmul(matmul(tmat(v["p"]), K0), tmat(v["p"], -1))
    pv = [fin(c) for c in v["p"]] + [num(1.0)]
    Sp = matmul(S0, pv)
    ctx.check("T(p)·K·T(-p) fixes p when K has no translation part", AND(*[Sp[i].val == pv[i].val for i in range(4)]), None, ["C13"], "lemma")


@unit("Transform._set_pivot", ["C13", "C04"])
def u_set_pivot(ctx):
    st = State(T, {}, {}, []); x = ctx.executor()
    t, wf, v = mk_transform(x, st)
    p, wfp = sym_point("p", finite=True)
    ctx.assume(wf, wfp)
    exits = ctx.run(x, "Transform._set_pivot", [t, p], {}, st)
    covers(ctx, exits)
    raises_iff(ctx, exits, {"TypeError": OR(*[c.none for c in p.items()])}, props=["C13"])   # -point needs every coordinate
    for e in exits:
        if e.kind == "return":
            ctx.check("wf_tx preserved", wf_tx(e.heap, t), e, ["C13", "C04"], "inv")
            ctx.check("pivot recorded", v_same(e.heap[t.oid]["_pivot"], p), e, ["C13"], "post")
            ctx.check("matrix unchanged", mat_eq(A(e.heap, t, "_matrix"), v["M"]), e, ["C13"], "frame")


# ---------------------------------------------------------------------------------------------- CoordinateTransformer: elementary maps
def mk_transformer(x, st, stack_top=True, named=("a", "b")):
    cur, wf, v = mk_transform(x, st, "cur")
    wfs = [wf]
    items = []
    if stack_top:
        top, wft, _ = mk_transform(x, st, "top"); wfs.append(wft); items.append(top)
    plen = fresh("stack_prefix_len", z3.IntSort())
    stack = st.alloc("list", {"$l": VList(items), "$plen": VNum(z3.IntVal(0), z3.ToReal(plen), True)})
    wfs.append(plen >= 0 if stack_top else plen == 0)
    d = VDict({}, {})
    nrefs = {}
    for k in named:
        r, wfn, _ = mk_transform(x, st, "named_" + k); wfs.append(wfn)
        d.present[k] = fresh(f"has_{k}", z3.BoolSort()); d.vals[k] = r; nrefs[k] = r
    nd = st.alloc("dict", {"$d": d})
    tr = st.alloc("CoordinateTransformer", {"_named_transforms": nd, "_transforms_stack": stack, "_current_transform": cur})
    return tr, AND(*wfs), dict(cur=cur, v=v, stack=stack, named=nd, nrefs=nrefs, top=items[0] if items else None)


def _elementary(name, mk_args, expect_K, raises=None, props=("C04", "C13")):
    @unit(f"CoordinateTransformer.{name}", list(props))
    def u(ctx):
        st = State(T, {}, {}, []); x = ctx.executor()
        tr, wf, info = mk_transformer(x, st)
        args, wfa = mk_args(ctx, x, st)
        ctx.assume(wf, wfa)
        h0 = st.snap()
        n_assume = len(ctx.assumes)
        exits = ctx.run(x, f"CoordinateTransformer.{name.split('[')[0]}", [tr] + args, {}, st)
        covers(ctx, exits)
        v = info["v"]
        if raises is not None:
            spec = raises(ctx, args)
            for e in exits:
                if e.kind == "raise" and e.payload == "LinAlgError": continue
                if e.kind == "raise":
                    ctx.check(f"{e.payload}-only-if@{e.where}", spec.get(e.payload, F), e, None, "raises")
            for cls, cond in spec.items():
                ctx.check(f"{cls}-if", IMP(cond, OR(*[e.cond for e in exits if e.kind == "raise" and e.payload == cls])), None, None, "raises")
        for e in exits:
            if e.kind == "raise":
                ctx.check(f"current matrix unchanged on raise @{e.where}", mat_eq(A(e.heap, info["cur"], "_matrix"), v["M"]), e, ["C13"], "frame")
                continue
            K = expect_K(ctx, x, args, e)
            S = matmul(matmul(tmat(v["p"]), K), tmat(v["p"], -1))
            ctx.check("matrix' == T(p)·K·T(-p)·matrix with the documented elementary K", mat_eq(A(e.heap, info["cur"], "_matrix"), matmul(S, v["M"])), e, ["C04", "C13"], "post")
            ctx.check("wf_tx(current) preserved", wf_tx(e.heap, info["cur"]), e, ["C04", "C13"], "inv")
            ctx.check("same current object; stack and named states untouched",
                      AND(z3.BoolVal(e.heap[tr.oid]["_current_transform"].oid == info["cur"].oid), unchanged_obj(h0, e.heap, info["stack"]),
                          unchanged_obj(h0, e.heap, info["named"]), *[frame_transform(h0, e.heap, r) for r in list(info["nrefs"].values()) + [info["top"]]]),
                      e, ["C13"], "frame")
            if name.startswith(("rotate", "scale")):
                pv = [fin(c) for c in v["p"]] + [num(1.0)]
                Sp = matmul(S, pv)
                ctx.check("C13 the pivot is a fixed point of the applied map", AND(*[Sp[i].val == pv[i].val for i in range(4)]), e, ["C13"], "post")
    return u


def frame_transform(h0, h1, ref):
    return AND(*[mat_eq(A(h0, ref, f), A(h1, ref, f)) for f in ("_matrix", "_inverse", "_to_pivot", "_from_pivot")], v_same(h0[ref.oid]["_pivot"], h1[ref.oid]["_pivot"]))


def nums(n, prefix="a"):
    def mk(ctx, x, st):
        vs = [sym_num(f"{prefix}{i}", finite=True)[0] for i in range(n)]
        return vs, T
    return mk


def K_translate(ctx, x, args, e):
    K = [[num(1.0 if i == j else 0.0) for j in range(4)] for i in range(4)]
    for i in range(3): K[i][3] = args[i]
    return K


def K_scale(ctx, x, args, e):
    s = args
    d = [s[0], s[0], s[0]] if len(s) == 1 else [s[0], s[1], num(1.0)] if len(s) == 2 else list(s)
    return [[d[i] if i == j and i < 3 else num(1.0 if i == j else 0.0) for j in range(4)] for i in range(4)]


_elementary("translate", nums(3), K_translate)
for _k in (1, 2, 3):
    _elementary(f"scale[{_k}]", nums(_k), K_scale, raises=lambda ctx, args: {"ValueError": OR(*[a.val == 0 for a in args])})


@unit("CoordinateTransformer.scale[0,4]", ["C13"])
def u_scale_arity(ctx):
    for k in (0, 4):
        st = State(T, {}, {}, []); x = ctx.executor()
        tr, wf, info = mk_transformer(x, st)
        ctx.assume(wf)
        exits = ctx.run(x, "CoordinateTransformer.scale", [tr] + [num(2.0)] * k, {}, st)
        for e in exits: ctx.check(f"scale with {k} factors raises ValueError", z3.BoolVal(e.kind == "raise" and e.payload == "ValueError"), e, None, "raises")


def K_reflect(ctx, x, args, e):
    n = ctx._normal
    nn = z3.Sum([c.val * c.val for c in n])
    K = [[num(1.0 if i == j else 0.0) for j in range(4)] for i in range(4)]
    for i in range(3):
        for j in range(3):
            K[i][j] = fin((1 if i == j else 0) - 2 * n[i].val * n[j].val / nn)
    return K


def reflect_args(ctx, x, st):
    vs = [sym_num(f"n{i}", finite=True)[0] for i in range(3)]
    ctx._normal = vs
    return [st.alloc("list", {"$l": VList(vs)})], T


_elementary("reflect", reflect_args, K_reflect, raises=lambda ctx, args: {"ValueError": AND(*[c.val == 0 for c in ctx._normal])})
