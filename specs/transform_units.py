"""Contracts on geometry/transform.py and geometry/transformer.py (C04 composition/apply, C13 state algebra)."""
import z3
from pyvc.values import *
from pyvc.state import State
from pyvc.ctx import unit
from specs.common import *
from specs.dsl import *
from specs import npmodel
from specs.npmodel import fin, matmul, arr

I4 = [[num(1.0 if i == j else 0.0) for j in range(4)] for i in range(4)]


def sym_mat(prefix, affine=True):
    return [[fin(fresh(f"{prefix}{i}{j}", z3.RealSort())) if (i < 3 or not affine) else num(1.0 if j == 3 else 0.0) for j in range(4)] for i in range(4)]


def tmat(p, sign=1):
    m = [[num(1.0 if i == j else 0.0) for j in range(4)] for i in range(4)]
    for i in range(3): m[i][3] = fin(p[i] if sign > 0 else -p[i])
    return m


def mat_eq(a, b):
    return AND(*[a[i][j].val == b[i][j].val for i in range(len(a)) for j in range(len(a[0]))])


def is_inverse(r, m):
    rm, mr = matmul(r, m), matmul(m, r)
    return AND(mat_eq(rm, I4), mat_eq(mr, I4))


HINTS = []


def mk_transform(x, st, prefix="t"):
    """Transform object satisfying wf_tx: affine matrix, _inverse its inverse, pivot translations consistent"""
    M, R = sym_mat(prefix + "m"), sym_mat(prefix + "r")
    # witness hint for reachability queries: diagonal matrices (keeps the cover queries linear)
    HINTS.append(AND(*[M[i][j].val == 0 for i in range(3) for j in range(4) if i != j], *[R[i][j].val == 0 for i in range(3) for j in range(4) if i != j]))
    p = [fresh(f"{prefix}p{i}", z3.RealSort()) for i in range(3)]
    ref = st.alloc("Transform", {"_matrix": arr(x, st, M), "_inverse": arr(x, st, R),
                                 "_pivot": VPoint(*[VOpt(F, fin(c)) for c in p]),
                                 "_to_pivot": arr(x, st, tmat(p)), "_from_pivot": arr(x, st, tmat(p, -1))})
    return ref, is_inverse(R, M), dict(M=M, R=R, p=p)


def A(st_or_heap, ref, f):
    h = st_or_heap.heap if isinstance(st_or_heap, State) else st_or_heap
    return h[h[ref.oid][f].oid]["$a"]


def wf_tx(heap, ref):
    M, R = A(heap, ref, "_matrix"), A(heap, ref, "_inverse")
    p = [c.inner.val for c in heap[ref.oid]["_pivot"].items()]
    return AND(is_inverse(R, M), mat_eq(A(heap, ref, "_to_pivot"), tmat(p)), mat_eq(A(heap, ref, "_from_pivot"), tmat(p, -1)),
               *[M[3][j].val == (1 if j == 3 else 0) for j in range(4)])


# ---------------------------------------------------------------------------------------------- Transform
@unit("Transform.apply", ["C04", "C13"])
def u_apply(ctx):
    st = State(T, {}, {}, []); x = ctx.executor()
    t, wf, v = mk_transform(x, st)
    p, wfp = sym_point("p", finite=True)
    ctx.assume(wf, wfp)
    exits = ctx.run(x, "Transform.apply", [t, p], {}, st)
    covers(ctx, exits, hint=HINTS[-8:]); never_raises(ctx, exits)
    res = [ITE(c.none, z3.RealVal(0), c.inner.val) for c in p.items()]
    for e in exits:
        if e.kind == "return":
            r = e.payload
            for i, a in enumerate("xyz"):
                img = v["M"][i][3].val + sum(v["M"][i][j].val * res[j] for j in range(3))
                c = getattr(r, a)
                ctx.check(f"apply(p).{a} == (A·resolve(p) + b).{a}", AND(NOT(c.none), c.inner.finite, c.inner.val == img), e, ["C04"], "post")
            ctx.canary("canary:x-unchanged", r.x.inner.val == res[0], e)
    ctx.trust("A-numpy: @, np.eye, np.array, np.diag, np.outer, slicing and .copy() have their mathematical meaning over the reals")


@unit("Transform.reverse∘apply", ["C13"])
def u_reverse(ctx):
    """reverse(apply(p)) == resolve(p), using wf_tx (_inverse·_matrix == I) and associativity of the matrix-vector product
    (lemma Mat4.mulVec_assoc, lemmas/Mat4.lean) instantiated at (R, M, v)"""
    st = State(T, {}, {}, []); x = ctx.executor()
    t, wf, v = mk_transform(x, st)
    p, wfp = known_point("p", finite=True)
    ctx.assume(wf, wfp)
    e1 = [e for e in ctx.run(x, "Transform.apply", [t, p], {}, st) if e.kind == "return"]
    q = e1[0].payload
    st2 = State(T, {}, e1[0].heap, [])
    exits = ctx.run(x, "Transform.reverse", [t, q], {}, st2)
    covers(ctx, exits, hint=HINTS[-8:]); never_raises(ctx, exits)
    res = [ITE(c.none, z3.RealVal(0), c.inner.val) for c in p.items()]
    # lemma instance Mat4.mulVec_assoc: R·(M·v) == (R·M)·v — a ring identity, checked here as a polynomial identity and
    # proved for all matrices in lemmas/Mat4.lean.  It is used with wf_tx in the form (R·M) == I, i.e. R·(M·v) == I·v.
    vec = [fin(r) for r in res] + [num(1.0)]
    Mv = matmul(v["M"], vec); RM = matmul(v["R"], v["M"])
    lhs, rhs = matmul(v["R"], Mv), matmul(RM, vec)
    lemma = AND(*[z3.simplify(lhs[i].val - rhs[i].val, som=True) == 0 for i in range(4)])
    ctx.check("lemma-instance Mat4.mulVec_assoc(R, M, v) is a polynomial identity", lemma, None, ["C13"], "lemma")
    Iv = matmul(I4, vec)
    ctx.assume(AND(*[lhs[i].val == Iv[i].val for i in range(4)]))      # = lemma instance rewritten with wf_tx: R·M == I
    for e in exits:
        if e.kind == "return":
            for i, a in enumerate("xyz"):
                c = getattr(e.payload, a)
                # a coordinate that is exactly 0 comes back as 0 (to_vector maps falsy coordinates to 0; same value)
                ctx.check(f"reverse(apply(p)).{a} == resolve(p).{a}", AND(NOT(c.none), c.inner.val == res[i]), e, ["C13"], "post")


@unit("Transform._chain_matrix", ["C04", "C13"])
def u_chain(ctx):
    st = State(T, {}, {}, []); x = ctx.executor()
    t, wf, v = mk_transform(x, st)
    K = sym_mat("k")
    ctx.assume(wf)
    h0 = st.snap()
    exits = ctx.run(x, "Transform._chain_matrix", [t, arr(x, st, K)], {}, st)
    covers(ctx, exits, hint=HINTS[-8:])
    S = matmul(matmul(tmat(v["p"]), K), tmat(v["p"], -1))
    for e in exits:
        if e.kind == "raise":
            ctx.check(f"only LinAlgError (singular composition) @{e.where}", z3.BoolVal(e.payload == "LinAlgError"), e, ["C04"], "raises")
            continue
        ctx.check("matrix' == T(p)·K·T(-p)·matrix  (left composition about the pivot)", mat_eq(A(e.heap, t, "_matrix"), matmul(S, v["M"])), e, ["C04", "C13"], "post")
        ctx.check("wf_tx preserved (inverse', pivot translations, affine bottom row)", wf_tx(e.heap, t), e, ["C04", "C13"], "inv")
        ctx.check("pivot unchanged", v_same(e.heap[t.oid]["_pivot"], h0[t.oid]["_pivot"]), e, ["C13"], "frame")
        ctx.canary("canary:matrix' == matrix", mat_eq(A(e.heap, t, "_matrix"), v["M"]), e,
                   hint=HINTS[-1:] + [mat_eq(K, tmat([z3.RealVal(1), z3.RealVal(0), z3.RealVal(0)])), mat_eq(v["M"], I4)])
    # pure algebra: a K with no translation part fixes the pivot after conjugation (C13 'rotations and scalings leave the pivot fixed')
    K0 = [[K[i][j] if j < 3 or i == 3 else num(0.0) for j in range(4)] for i in range(4)]
    S0 = matmul(matmul(tmat(v["p"]), K0), tmat(v["p"], -1))
    pv = [fin(c) for c in v["p"]] + [num(1.0)]
    Sp = matmul(S0, pv)
    ctx.check("T(p)·K·T(-p) fixes p when K has no translation part", AND(*[Sp[i].val == pv[i].val for i in range(4)]), None, ["C13"], "lemma")


@unit("Transform._set_pivot", ["C13", "C04"])
def u_set_pivot(ctx):
    st = State(T, {}, {}, []); x = ctx.executor()
    t, wf, v = mk_transform(x, st)
    p, wfp = sym_point("p", finite=True)
    ctx.assume(wf, wfp)
    exits = ctx.run(x, "Transform._set_pivot", [t, p], {}, st)
    covers(ctx, exits, hint=HINTS[-8:])
    raises_iff(ctx, exits, {"TypeError": OR(*[c.none for c in p.items()])}, props=["C13"])   # -point needs every coordinate
    for e in exits:
        if e.kind == "return":
            ctx.check("wf_tx preserved", wf_tx(e.heap, t), e, ["C13", "C04"], "inv")
            ctx.check("pivot recorded", v_same(e.heap[t.oid]["_pivot"], p), e, ["C13"], "post")
            ctx.check("matrix unchanged", mat_eq(A(e.heap, t, "_matrix"), v["M"]), e, ["C13"], "frame")


# ---------------------------------------------------------------------------------------------- CoordinateTransformer: elementary maps
def mk_transformer(x, st, stack_top=True, named=("a", "b")):
    cur, wf, v = mk_transform(x, st, "cur")
    wfs = [wf]
    items = []
    if stack_top:
        top, wft, _ = mk_transform(x, st, "top"); items.append(top)
    plen = fresh("stack_prefix_len", z3.IntSort())
    stack = st.alloc("list", {"$l": VList(items), "$plen": VNum(z3.IntVal(0), z3.ToReal(plen), True)})
    wfs.append(plen >= 0 if stack_top else plen == 0)
    d = VDict({}, {})
    nrefs = {}
    for k in named:
        r, wfn, _ = mk_transform(x, st, "named_" + k)
        d.present[k] = fresh(f"has_{k}", z3.BoolSort()); d.vals[k] = r; nrefs[k] = r
    nd = st.alloc("dict", {"$d": d})
    tr = st.alloc("CoordinateTransformer", {"_named_transforms": nd, "_transforms_stack": stack, "_current_transform": cur})
    # witness region for refutations: when a clause is not proved and the general query is 'unknown' (non-linear), the negated clause is tried inside
    # this region (diagonal stored matrices, identity current transform); a model found there is a genuine counterexample (sat under a hint is sat)
    c_ = getattr(x, "ctx", None)
    if c_ is not None and not c_.default_hint: c_.default_hint = HINTS[-8:] + [mat_eq(v["M"], I4), mat_eq(v["R"], I4)]
    return tr, AND(*wfs), dict(cur=cur, v=v, stack=stack, named=nd, nrefs=nrefs, top=items[0] if items else None)


def _elementary(name, mk_args, expect_K, raises=None, props=("C04", "C13")):
    @unit(f"CoordinateTransformer.{name}", list(props))
    def u(ctx):
        st = State(T, {}, {}, []); x = ctx.executor()
        tr, wf, info = mk_transformer(x, st)
        args, wfa = mk_args(ctx, x, st)
        ctx.assume(wf, wfa)
        h0 = st.snap()
        n_assume = len(ctx.assumes)
        exits = ctx.run(x, f"CoordinateTransformer.{name.split('[')[0]}", [tr] + args, {}, st)
        hint = HINTS[-8:] + [mat_eq(info["v"]["M"], I4), mat_eq(info["v"]["R"], I4)]
        if name.startswith(("translate", "scale")):
            # plain arithmetic on the matrices: the real method can be replayed on the model and compared entry by entry (other elementary maps go through
            # uninterpreted sqrt / scipy rotations, whose model interpretation is arbitrary)
            from specs import harness
            ctx.replayer = harness.transformer_replayer(ctx, ctx.w, name.split("[")[0], tr, info, h0, args, exits)
        for i, e in enumerate(exits):
            h = list(hint)
            if getattr(ctx, "_normal", None) and e.kind == "return": h += [ctx._normal[0].val == 1, ctx._normal[1].val == 0, ctx._normal[2].val == 0]
            ctx.cover(f"reach:{e.kind}{':' + e.payload if e.kind == 'raise' else ''}@{e.where}#{i}", T, e, None, h)
        v = info["v"]
        if raises is not None:
            spec = raises(ctx, args)
            for e in exits:
                if e.kind == "raise" and e.payload == "LinAlgError": continue
                if e.kind == "raise":
                    ctx.check(f"{e.payload}-only-if@{e.where}", spec.get(e.payload, F), e, None, "raises")
            for cls, cond in spec.items():
                ctx.check(f"{cls}-if", IMP(cond, OR(*[e.cond for e in exits if e.kind == "raise" and e.payload == cls])), None, None, "raises")
        for e in exits:
            if e.kind == "raise": continue
            K = expect_K(ctx, x, args, e)
            S = matmul(matmul(tmat(v["p"]), K), tmat(v["p"], -1))
            ctx.check("matrix' == T(p)·K·T(-p)·matrix with the documented elementary K", mat_eq(A(e.heap, info["cur"], "_matrix"), matmul(S, v["M"])), e, ["C04", "C13"], "post")
            ctx.check("wf_tx(current) preserved", wf_tx(e.heap, info["cur"]), e, ["C04", "C13"], "inv")
            ctx.check("same current object; stack and named states untouched",
                      AND(z3.BoolVal(e.heap[tr.oid]["_current_transform"].oid == info["cur"].oid), unchanged_obj(h0, e.heap, info["stack"]),
                          unchanged_obj(h0, e.heap, info["named"]), *[frame_transform(h0, e.heap, r) for r in list(info["nrefs"].values()) + [info["top"]]]),
                      e, ["C13"], "frame")
            if name.startswith(("rotate", "scale")):
                pv = [fin(c) for c in v["p"]] + [num(1.0)]
                Sp = matmul(S, pv)
                ctx.check("C13 the pivot is a fixed point of the applied map", AND(*[Sp[i].val == pv[i].val for i in range(4)]), e, ["C13"], "post")
    return u


def frame_transform(h0, h1, ref):
    return AND(*[mat_eq(A(h0, ref, f), A(h1, ref, f)) for f in ("_matrix", "_inverse", "_to_pivot", "_from_pivot")], v_same(h0[ref.oid]["_pivot"], h1[ref.oid]["_pivot"]))


def nums(n, prefix="a"):
    def mk(ctx, x, st):
        vs = [sym_num(f"{prefix}{i}", finite=True)[0] for i in range(n)]
        return vs, T
    return mk


def K_translate(ctx, x, args, e):
    K = [[num(1.0 if i == j else 0.0) for j in range(4)] for i in range(4)]
    for i in range(3): K[i][3] = args[i]
    return K


def K_scale(ctx, x, args, e):
    s = args
    d = [s[0], s[0], s[0]] if len(s) == 1 else [s[0], s[1], num(1.0)] if len(s) == 2 else list(s)
    return [[d[i] if i == j and i < 3 else num(1.0 if i == j else 0.0) for j in range(4)] for i in range(4)]


_elementary("translate", nums(3), K_translate)
for _k in (1, 2, 3):
    _elementary(f"scale[{_k}]", nums(_k), K_scale, raises=lambda ctx, args: {"ValueError": OR(*[a.val == 0 for a in args])})


@unit("CoordinateTransformer.scale[0,4]", ["C13"])
def u_scale_arity(ctx):
    for k in (0, 4):
        st = State(T, {}, {}, []); x = ctx.executor()
        tr, wf, info = mk_transformer(x, st)
        ctx.assume(wf)
        exits = ctx.run(x, "CoordinateTransformer.scale", [tr] + [num(2.0)] * k, {}, st)
        for e in exits: ctx.check(f"scale with {k} factors raises ValueError", z3.BoolVal(e.kind == "raise" and e.payload == "ValueError"), e, None, "raises")


def K_reflect(ctx, x, args, e):
    """Householder matrix I - 2 u u^T with u = n/|n|, |n| being the value the (assumed) norm contract returned"""
    n = ctx._normal
    r = x.ghost["norm"]
    K = [[num(1.0 if i == j else 0.0) for j in range(4)] for i in range(4)]
    for i in range(3):
        for j in range(3):
            K[i][j] = fin((1 if i == j else 0) - 2 * ((n[i].val / r) * (n[j].val / r)))
    return K


def reflect_args(ctx, x, st):
    vs = [sym_num(f"n{i}", finite=True)[0] for i in range(3)]
    ctx._normal = vs
    return [st.alloc("list", {"$l": VList(vs)})], T


_elementary("reflect", reflect_args, K_reflect, raises=lambda ctx, args: {"ValueError": AND(*[c.val == 0 for c in ctx._normal])})


# ---------------------------------------------------------------------------------------------- rotate / mirror
def _rotate_unit(axis_name, idx):
    @unit(f"CoordinateTransformer.rotate[{axis_name}]", ["C04", "C13"])
    def u(ctx):
        st = State(T, {}, {}, []); x = ctx.executor()
        tr, wf, info = mk_transformer(x, st)
        ang, _ = sym_num("angle", finite=True)
        ctx.assume(wf)
        axis = VEnum("Axis", z3.IntVal(ctx.w.enum_index("Axis", axis_name)), True)
        exits = ctx.run(x, "CoordinateTransformer.rotate", [tr, ang, axis], {}, st)
        I3 = [[num(1.0 if i == j else 0.0) for j in range(3)] for i in range(3)]
        qh = [mat_eq(o["$a"], I3) for e in exits for o in e.heap.values() if "$a" in o and len(o["$a"]) == 3 and isinstance(o["$a"][0], list)]
        covers(ctx, exits, hint=HINTS[-8:] + [ang.val == 0, mat_eq(info["v"]["M"], I4), mat_eq(info["v"]["R"], I4)] + qh[:1])
        v = info["v"]
        rots = [o for o in st.heap.values() if "$rotvec" in o] + [o for e in exits for o in e.heap.values() if "$rotvec" in o]
        for e in exits:
            if e.kind == "raise":
                ctx.check(f"only LinAlgError can escape @{e.where}", z3.BoolVal(e.payload == "LinAlgError"), e, None, "raises"); continue
            rv = [o for o in e.heap.values() if "$rotvec" in o]
            ctx.check("exactly one rotation requested from scipy", z3.BoolVal(len(rv) == 1), e, None, "post")
            vec = rv[0]["$rotvec"]
            import math
            from fractions import Fraction
            f = Fraction(math.pi) / 180
            want = [ang.val * z3.Q(f.numerator, f.denominator) if i == idx else z3.RealVal(0) for i in range(3)]
            ctx.check(f"rotation vector is angle·π/180 about {axis_name.upper()}", AND(*[vec[i].val == want[i] for i in range(3)]), e, ["C04"], "post")
            # the 3x3 scipy matrix (any Q satisfying the assumed contract) sits in the upper-left block of K, rest identity
            M1 = A(e.heap, info["cur"], "_matrix")
            Qs = [o["$a"] for o in e.heap.values() if "$a" in o and len(o["$a"]) == 3 and isinstance(o["$a"][0], list)]
            ok = F
            for Q in Qs:
                K = [[Q[i][j] if i < 3 and j < 3 else num(1.0 if i == j else 0.0) for j in range(4)] for i in range(4)]
                S = matmul(matmul(tmat(v["p"]), K), tmat(v["p"], -1))
                ok = OR(ok, mat_eq(M1, matmul(S, v["M"])))
                pv = [fin(c) for c in v["p"]] + [num(1.0)]
                Sp = matmul(S, pv)
                ctx.check("C13 the pivot is a fixed point of the rotation about the pivot", AND(*[z3.simplify(Sp[i].val - pv[i].val, som=True) == 0 for i in range(4)]), e, ["C13"], "post")
            ctx.check("matrix' == T(p)·[Q 0; 0 1]·T(-p)·matrix", ok, e, ["C04", "C13"], "post")
            ctx.check("wf_tx(current) preserved", wf_tx(e.heap, info["cur"]), e, ["C04", "C13"], "inv")
        ctx.trust("scipy Rotation.from_rotvec(v).as_matrix(): orthogonal and fixes v (assumed contract; bounded differential in specs/bounded.py)")
    return u


for _i, _a in enumerate(("X", "Y", "Z")): _rotate_unit(_a, _i)


def _mirror_unit(plane, normal):
    @unit(f"CoordinateTransformer.mirror[{plane}]", ["C04", "C13"])
    def u(ctx):
        st = State(T, {}, {}, []); x = ctx.executor()
        tr, wf, info = mk_transformer(x, st)
        ctx.assume(wf)
        pl = VEnum("Plane", z3.IntVal(ctx.w.enum_index("Plane", plane)), True)
        exits = ctx.run(x, "CoordinateTransformer.mirror", [tr, pl], {}, st)
        covers(ctx, exits, hint=HINTS[-8:])
        v = info["v"]
        for e in exits:
            if e.kind == "raise":
                ctx.check(f"only LinAlgError can escape @{e.where}", z3.BoolVal(e.payload == "LinAlgError"), e, None, "raises"); continue
            K = [[num((1.0 - 2.0 * normal[i] * normal[j]) if (i < 3 and j < 3 and i == j) else (1.0 if i == j else 0.0)) for j in range(4)] for i in range(4)]
            S = matmul(matmul(tmat(v["p"]), K), tmat(v["p"], -1))
            ctx.check(f"mirror({plane}) flips exactly the axis normal to the plane, about the pivot", mat_eq(A(e.heap, info["cur"], "_matrix"), matmul(S, v["M"])), e, ["C04", "C13"], "post")
    return u


_mirror_unit("XY", (0, 0, 1)); _mirror_unit("YZ", (1, 0, 0)); _mirror_unit("ZX", (0, 1, 0))


# ---------------------------------------------------------------------------------------------- state algebra (C13)
def same_transform(h0, r0, h1, r1):
    """two Transform objects (possibly in different heaps) denote the same mapping and pivot"""
    return AND(*[mat_eq(A(h0, r0, f), A(h1, r1, f)) for f in ("_matrix", "_inverse", "_to_pivot", "_from_pivot")], v_same(h0[r0.oid]["_pivot"], h1[r1.oid]["_pivot"]))


def arrays_of(heap, ref):
    return {heap[ref.oid][f].oid for f in ("_matrix", "_inverse", "_to_pivot", "_from_pivot")}


def separated(heap, tr):
    """wf separation: current transform, every visible stack entry and every named entry are pairwise distinct objects
    that share no array"""
    o = heap[tr.oid]
    refs = [o["_current_transform"]] + list(heap[o["_transforms_stack"].oid]["$l"].items)
    d = heap[o["_named_transforms"].oid]["$d"]
    refs += [d.vals[k] for k in d.present if not z3.is_false(simp(d.present[k]))]
    ids = [r.oid for r in refs]
    arrs = [arrays_of(heap, r) for r in refs]
    ok = len(set(ids)) == len(ids) and all(not (arrs[i] & arrs[j]) for i in range(len(arrs)) for j in range(i + 1, len(arrs)))
    return z3.BoolVal(ok)


def _state_unit(name, call, stack_top, check, props=("C13", "C04")):
    @unit(f"CoordinateTransformer.{name}", list(props))
    def u(ctx):
        st = State(T, {}, {}, []); x = ctx.executor()
        tr, wf, info = mk_transformer(x, st, stack_top=stack_top)
        ctx.assume(wf)
        h0 = st.snap()
        method, args = call(ctx, x, st)
        exits = ctx.run(x, f"CoordinateTransformer.{method}", [tr] + args, {}, st)
        from specs import harness
        ctx.replayer = harness.transformer_replayer(ctx, ctx.w, method, tr, info, h0, args, exits)
        covers(ctx, exits, hint=HINTS[-8:])
        check(ctx, tr, info, h0, exits)
        for e in exits:
            ctx.check(f"separation preserved @{e.kind}@{e.where}", separated(e.heap, tr), e, ["C13"], "inv")
    return u


def stack_items(h, tr): return h[h[tr.oid]["_transforms_stack"].oid]["$l"].items
def named(h, tr): return h[h[tr.oid]["_named_transforms"].oid]["$d"]
def cur_of(h, tr): return h[tr.oid]["_current_transform"]


def chk_save_stack(ctx, tr, info, h0, exits):
    never_raises(ctx, exits)
    for e in exits:
        if e.kind != "return": continue
        s0, s1 = stack_items(h0, tr), stack_items(e.heap, tr)
        ctx.check("stack' == stack ++ [snapshot of current]", AND(z3.BoolVal(len(s1) == len(s0) + 1 and [r.oid for r in s1[:-1]] == [r.oid for r in s0]),
                  same_transform(h0, info["cur"], e.heap, s1[-1]) if len(s1) == len(s0) + 1 else F), e, None, "post")
        ctx.check("current transform and named states untouched", AND(z3.BoolVal(cur_of(e.heap, tr).oid == info["cur"].oid), frame_transform(h0, e.heap, info["cur"]),
                  unchanged_obj(h0, e.heap, info["named"]), *[frame_transform(h0, e.heap, r) for r in info["nrefs"].values()]), e, None, "frame")


def chk_save_named(ctx, tr, info, h0, exits):
    never_raises(ctx, exits)
    for e in exits:
        if e.kind != "return": continue
        d1 = named(e.heap, tr)
        ctx.check("named'[a] is a snapshot of current; other names untouched", AND(d1.present["a"], same_transform(h0, info["cur"], e.heap, d1.vals["a"]),
                  d1.present["b"] == named(h0, tr).present["b"], z3.BoolVal(d1.vals["b"].oid == info["nrefs"]["b"].oid), frame_transform(h0, e.heap, info["nrefs"]["b"])), e, None, "post")
        ctx.check("stack and current untouched", AND(unchanged_obj(h0, e.heap, info["stack"]), z3.BoolVal(cur_of(e.heap, tr).oid == info["cur"].oid), frame_transform(h0, e.heap, info["cur"])), e, None, "frame")


def chk_restore_stack(ctx, tr, info, h0, exits):
    never_raises(ctx, exits)
    for e in exits:
        if e.kind != "return": continue
        s0, s1 = stack_items(h0, tr), stack_items(e.heap, tr)
        ctx.check("pops the most recently saved state (stack order)", AND(z3.BoolVal(len(s1) == len(s0) - 1 and [r.oid for r in s1] == [r.oid for r in s0[:-1]]),
                  same_transform(h0, info["top"], e.heap, cur_of(e.heap, tr))), e, None, "post")
        ctx.check("named states untouched", AND(unchanged_obj(h0, e.heap, info["named"]), *[frame_transform(h0, e.heap, r) for r in info["nrefs"].values()]), e, None, "frame")


def chk_restore_empty(ctx, tr, info, h0, exits):
    for e in exits: ctx.check("restore on an empty stack raises IndexError and changes nothing", AND(z3.BoolVal(e.kind == "raise" and e.payload == "IndexError"),
                              z3.BoolVal(cur_of(e.heap, tr).oid == info["cur"].oid), frame_transform(h0, e.heap, info["cur"])), e, None, "raises")


def chk_restore_named(ctx, tr, info, h0, exits):
    has = named(h0, tr).present["a"]
    raises_iff(ctx, exits, {"KeyError": NOT(has)}, props=["C13"])
    for e in exits:
        if e.kind != "return": continue
        ctx.check("current' denotes the named snapshot", same_transform(h0, info["nrefs"]["a"], e.heap, cur_of(e.heap, tr)), e, None, "post")
        ctx.check("the named snapshot itself is unchanged and still registered", AND(named(e.heap, tr).present["a"], z3.BoolVal(named(e.heap, tr).vals["a"].oid == info["nrefs"]["a"].oid),
                  frame_transform(h0, e.heap, info["nrefs"]["a"]), unchanged_obj(h0, e.heap, info["stack"])), e, None, "frame")
        # immutability of named states rests on separation: later mutators touch only the object _current_transform refers to
        ctx.check("C13 current' is a different object from the named snapshot (no aliasing)", z3.BoolVal(cur_of(e.heap, tr).oid != info["nrefs"]["a"].oid), e, None, "inv")


def chk_delete(ctx, tr, info, h0, exits):
    has = named(h0, tr).present["a"]
    raises_iff(ctx, exits, {"KeyError": NOT(has)}, props=["C13"])
    for e in exits:
        if e.kind != "return": continue
        d1 = named(e.heap, tr)
        ctx.check("named' == named \\ {a}", AND(NOT(d1.present.get("a", F)), d1.present["b"] == named(h0, tr).present["b"]), e, None, "post")


S = lambda s: VStr(s)
_state_unit("save_state()", lambda c, x, st: ("save_state", []), True, chk_save_stack)
_state_unit("save_state(None)[empty stack]", lambda c, x, st: ("save_state", [NONE]), False, chk_save_stack)
_state_unit("save_state('  ')", lambda c, x, st: ("save_state", [S("  ")]), True, chk_save_stack)
_state_unit("save_state(' a ')", lambda c, x, st: ("save_state", [S(" a ")]), True, chk_save_named)
_state_unit("restore_state()", lambda c, x, st: ("restore_state", []), True, chk_restore_stack)
_state_unit("restore_state()[empty stack]", lambda c, x, st: ("restore_state", []), False, chk_restore_empty)
_state_unit("restore_state('a')", lambda c, x, st: ("restore_state", [S("a")]), True, chk_restore_named)
_state_unit("restore_state('a')[empty stack]", lambda c, x, st: ("restore_state", [S("a")]), False, chk_restore_named)
_state_unit("delete_state('a')", lambda c, x, st: ("delete_state", [S("a")]), True, chk_delete)
