"""Contracts on formatters/default_formatter.py at STRING level (C08 structure of a line, C09 comment confinement).

Executed in string mode: f-strings are concatenations, str methods are z3 string operations or uninterpreted functions
with stated contracts.  Comment styles are enumerated (the 7 bracketed styles, ';', and two custom symbols)."""
import z3
from pyvc.values import *
from pyvc.state import State
from pyvc.ctx import unit
from specs.common import *
from specs.dsl import *
from specs import native

S = z3.StringSort()
joinlines = z3.Function("joinlines", S, S)                 # " ".join(text.splitlines())
replall = z3.Function("replall", S, S, S, S)               # s.replace(a, b)  (all occurrences)
rstrip_f = z3.Function("rstrip", S, S)
strip_f = z3.Function("strip", S, S)
fmtnum = z3.Function("fmtnum", z3.RealSort(), z3.IntSort(), S)   # np.format_float_positional(x, precision=p, unique=True, fractional=True, sign=False, trim='-')
LB = ["\n", "\r", "\x0b", "\x0c", "\x1c", "\x1d", "\x1e", "\x85", " ", " "]


def nolb(t): return AND(*[NOT(z3.Contains(t, z3.StringVal(c))) for c in ("\n", "\r")])


def install_strings(x, ctx):
    x.string_mode = True
    for k in [("DefaultFormatter", "parameters"), ("DefaultFormatter", "command"), ("DefaultFormatter", "comment"), ("DefaultFormatter", "number"),
              ("BaseFormatter", "parameters"), ("BaseFormatter", "command"), ("BaseFormatter", "comment")]:
        x.contracts.pop(k, None)
    x.ext.pop("join_stmt", None)
    def splitlines(x_, recv, args, kwargs, st, n):
        r = VOpaque("lines", recv.z()); return r
    x.ext["str.splitlines"] = splitlines
    def join(x_, sep, els, st, n): raise Unsupported("join over a generator in string mode")
    mapped = {}
    def map_opaque(x_, it, var, elt, st, n):
        """`[f(s) for s in text.splitlines()]`: f is executed ONCE on a generic line s (assumed of str.splitlines: a line contains no line break and is
        a piece of the text); the result is an opaque mapped sequence that only `' '.join` consumes (rule in str_join)"""
        if it.sort != "lines": return None
        s_ = fresh("line", S)
        x_.assume.append(AND(nolb(s_), z3.Contains(it.term, s_)))
        n0 = len(x_.ghost.setdefault("repl_patterns", []))
        st.env[var] = VStr(None, s_)
        r = x_.ev(elt, st)
        if not isinstance(r, VStr): raise Unsupported("mapped line is not a string")
        key = fresh("mappedlines", S)
        mapped[key.get_id()] = (it.term, s_, r.z(), list(x_.ghost["repl_patterns"][n0:]), st.pc)
        return VOpaque("mappedlines", key)
    x.ext["map_opaque"] = map_opaque
    def entails(x_, pc, goal):
        sv = z3.Solver(); sv.set("timeout", 5000)
        sv.add(*x_.assume); sv.add(pc); sv.add(NOT(goal))
        return sv.check() == z3.unsat
    def str_join(x_, recv, args, kwargs, st, n):
        a = args[0]
        if isinstance(a, VOpaque) and a.sort == "mappedlines":
            if recv.py != " ": raise Unsupported("lines joined with something else than a space")
            text, s_, r, pats, pc = mapped[a.term.get_id()]
            t = z3.Function("joinmapped", S, S, S)(text, r)
            # map-then-join rule (assumed of python's join; each instance is justified by a solver query about the GENERIC line): pieces joined by
            # single spaces contain no line break if no piece does, and do not contain a non-empty space-free pattern if no piece does (an
            # occurrence can neither include a separator nor straddle one)
            if entails(x_, pc, nolb(r)): x_.assume.append(nolb(t))
            for p_ in pats:
                if entails(x_, pc, AND(z3.Length(p_) > 0, NOT(z3.Contains(p_, z3.StringVal(" "))), NOT(z3.Contains(r, p_)))):
                    x_.assume.append(NOT(z3.Contains(t, p_)))
            return VStr(None, t)
        if isinstance(a, VOpaque) and a.sort == "lines":
            if recv.py != " ": raise Unsupported("lines joined with something else than a space")
            t = joinlines(a.term)
            # assumed contract of str.splitlines + join (python): the result contains no line break character
            x_.assume.append(nolb(t))
            return VStr(None, t)
        return None
    orig_str_method = x.str_method
    def str_method(recv, name, args, kwargs, st, n=None):
        if name == "join":
            r = str_join(x, recv, args, kwargs, st, n)
            if r is not None: return r
        if name == "replace" and not (recv.py is not None and all(a.py is not None for a in args)):
            a, b = args[0].z(), args[1].z()
            t = replall(recv.z(), a, b)
            x.ghost.setdefault("repl_patterns", []).append(a)
            # assumed contract of str.replace (all occurrences, left to right, non-overlapping): when the replacement is a single space and the
            # pattern is non-empty and contains no space, the pattern no longer occurs (an occurrence could neither include an inserted space nor
            # lie inside an unreplaced stretch).  With an EMPTY replacement occurrences can re-form ("**//".replace("*/", "") == "*/"): no guarantee.
            # A single-character pattern cannot re-form: it is gone whenever the replacement does not contain it.
            x.assume.append(AND(IMP(AND(z3.Length(a) > 0, b == z3.StringVal(" "), NOT(z3.Contains(a, z3.StringVal(" ")))), NOT(z3.Contains(t, a))),
                                IMP(AND(z3.Length(a) == 1, NOT(z3.Contains(b, a))), NOT(z3.Contains(t, a))),
                                IMP(AND(nolb(recv.z()), nolb(b)), nolb(t))))
            return VStr(None, t)
        if name in ("rstrip", "strip", "lstrip") and recv.py is None and args:
            f2 = z3.Function(name + "_chars", S, S, S)              # stripping a given character set: a different function from the whitespace strip
            return VStr(None, f2(recv.z(), args[0].z()))
        if name == "rstrip" and recv.py is None and not args:
            t = rstrip_f(recv.z()); x.assume.append(AND(IMP(nolb(recv.z()), nolb(t)), z3.PrefixOf(t, recv.z()))); return VStr(None, t)
        if name == "strip" and recv.py is None and not args:
            t = strip_f(recv.z()); x.assume.append(IMP(nolb(recv.z()), nolb(t))); return VStr(None, t)
        return orig_str_method(recv, name, args, kwargs, st, n)
    x.str_method = str_method
    def np_isfinite(x_, args, kwargs, st, n): return VBool(x_.as_num(st, args[0], n).finite)
    x.ext["np.isfinite"] = np_isfinite
    def np_fmt(x_, args, kwargs, st, n):
        v = x_.as_num(st, args[0], n)
        x_.ghost.setdefault("fmt_calls", []).append((st.pc, v, dict(kwargs)))
        p = x_.as_num(st, kwargs["precision"], n)
        return VStr(None, fmtnum(v.val, z3.ToInt(p.val)))
    x.ext["np.format_float_positional"] = np_fmt
    def to_str(x_, v, st, n):
        if isinstance(v, VNum): return VStr(None, fmtnum(v.val, z3.IntVal(-1)))
        return VStr(None, fresh("str", S))
    x.ext["str"] = to_str


STYLES = {";": None, "(": ")", "[": "]", "{": "}", "<": ">", '"': '"', "'": "'", "/*": "*/", "#": None, "//": None}


def mk_formatter(st, style, eol=None, decimals=None):
    close = STYLES[style]
    template = f"{style} {{}} {close}" if close else f"{style} {{}}"
    labels = st.alloc("dict", {"$d": VDict({k: T for k in AXES}, {k: VStr(None, fresh(f"label_{k}", S)) for k in AXES})})
    valid = st.alloc("list", {"$l": VList([VStr(k) for k in AXES])})
    dp, _ = sym_num("decimal_places", isint=True, finite=True)
    return st.alloc("DefaultFormatter", {"_comment_template": VStr(template), "_line_endings": VStr(None, fresh("eol", S)) if eol is None else VStr(eol),
                                         "_decimal_places": dp, "_labels": labels, "_valid_axes": valid}), dp


def confined(style, c):
    """what the independent comment lexer needs from a formatted comment c"""
    close = STYLES[style]
    cs = [z3.PrefixOf(z3.StringVal(style), c), nolb(c)]
    if close:
        # the closing symbol occurs exactly once after the opening symbol: at the very end
        cs.append(z3.IndexOf(c, z3.StringVal(close), z3.IntVal(len(style))) == z3.Length(c) - len(close))
    return AND(*cs)


for _style in STYLES:
    def _mk(style):
        @unit(f"DefaultFormatter.comment[{style}]", ["C09", "C08"])
        def u(ctx):
            st = State(T, {}, {}, []); x = ctx.executor(); install_strings(x, ctx)
            f, dp = mk_formatter(st, style)
            text = VStr(None, fresh("text", S))
            exits = ctx.run(x, "DefaultFormatter.comment", [f, text], {}, st)
            ctx.replayer = native.comment_replayer(style, STYLES[style], text)
            covers(ctx, exits); never_raises(ctx, exits, props=["C09"])
            for e in exits:
                if e.kind != "return": continue
                c = e.payload.z()
                ctx.check("C09 the whole text stays inside ONE comment: starts with the opening symbol, contains no line break, and (bracketed styles) the closing symbol occurs only at the end",
                          confined(style, c), e, ["C09", "C08"], "post")
                ctx.canary("canary: the comment is the text itself", c == text.z(), e)
            ctx.trust("str.splitlines()+' '.join: the result contains no line break (assumed; bounded differential)",
                      "str.replace(a, b): a no longer occurs when b does not contain a (assumed; bounded differential)",
                      "map-then-join (only when the code maps over text.splitlines()): every line is a piece of the text without line breaks; ' '.join of the mapped lines has no line break / no "
                      "occurrence of a non-empty space-free pattern when that is proved of the generic mapped line (assumed of python's join; bounded differential)")
        return u
    _mk(_style)


@unit("DefaultFormatter.line", ["C08", "C09"])
def u_line(ctx):
    st = State(T, {}, {}, []); x = ctx.executor(); install_strings(x, ctx)
    f, dp = mk_formatter(st, ";")
    s = VStr(None, fresh("statement", S))
    exits = ctx.run(x, "DefaultFormatter.line", [f, s], {}, st)
    covers(ctx, exits); never_raises(ctx, exits)
    eol = st.heap[f.oid]["_line_endings"].z()
    for e in exits:
        if e.kind != "return": continue
        r = e.payload.z()
        body = z3.SubString(r, 0, z3.Length(r) - z3.Length(eol))
        ctx.check("line == statement without trailing blanks ++ the configured line ending", AND(z3.SuffixOf(eol, r), body == rstrip_f(s.z())), e, None, "post")
        ctx.check("a statement without line breaks yields a body without line breaks: the line is terminated exactly once", IMP(nolb(s.z()), nolb(body)), e, None, "post")
        ctx.canary("canary: line == statement", r == s.z(), e)


@unit("DefaultFormatter.command", ["C08", "C09"])
def u_command(ctx):
    for style in (";", "("):
        st = State(T, {}, {}, []); x = ctx.executor(); install_strings(x, ctx)
        f, dp = mk_formatter(st, style)
        cmd = VStr(None, fresh("cmd", S))
        ptxt = VStr(None, fresh("params_text", S))
        x.contracts[("DefaultFormatter", "parameters")] = lambda x_, recv, args, kwargs, st_: ptxt          # verified in its own unit
        has_params = fresh("has_params", z3.BoolSort())
        pd = st.alloc("dict", {"$d": VDict({"K": has_params}, {"K": num(1)})})
        comment = VOpt(fresh("comment_none", z3.BoolSort()), VStr(None, fresh("comment", S)))
        ctx.under_contract("DefaultFormatter.command")
        exits = x.run("DefaultFormatter.command", [f, cmd, VOpt(fresh("params_none", z3.BoolSort()), pd), comment], {}, st)
        never_raises(ctx, exits, tag=f"[{style}]")
        for e in exits:
            if e.kind != "return": continue
            r = e.payload.z()
            # independent reading: the comment produced by comment() for this text (its confinement is proved in the comment units)
            with_c = AND(NOT(comment.none), z3.Length(strip_f(comment.inner.z())) > 0)
            ctx.check(f"[{style}] without a (non-blank) comment the block is exactly the words", IMP(NOT(with_c), OR(r == cmd.z(), r == z3.Concat(cmd.z(), z3.StringVal(" "), ptxt.z()))), e, None, "post")
            ctx.check(f"[{style}] with a comment the block is the same words, one space, then one confined comment",
                      IMP(with_c, OR(*[AND(z3.PrefixOf(z3.Concat(w, z3.StringVal(" ")), r),
                                          confined(style, z3.SubString(r, z3.Length(w) + 1, z3.Length(r) - z3.Length(w) - 1)))
                                       for w in (cmd.z(), z3.Concat(cmd.z(), z3.StringVal(" "), ptxt.z()))])), e, ["C09", "C08"], "post")


@unit("DefaultFormatter.number", ["C08"])
def u_number(ctx):
    st = State(T, {}, {}, []); x = ctx.executor(); install_strings(x, ctx)
    f, dp = mk_formatter(st, ";")
    v, wf = sym_num("number")
    ctx.assume(wf, dp.val >= 0, z3.IsInt(dp.val))
    x.ext_names["np"] = VModule("np")
    exits = ctx.run(x, "DefaultFormatter.number", [f, v], {}, st)
    covers(ctx, exits)
    raises_iff(ctx, exits, {"ValueError": NOT(v.finite)}, props=["C08"])        # non-finite values are rejected instead of being written
    calls = x.ghost.get("fmt_calls", [])
    for e in exits:
        if e.kind != "return": continue
        r = e.payload.z()
        ctx.check("zero is written as '0'", IMP(AND(v.finite, v.val == 0), r == z3.StringVal("0")), e, None, "post")
        ctx.check("every other finite number goes through numpy's positional formatter with the configured precision", IMP(AND(v.finite, v.val != 0), r == fmtnum(v.val, z3.ToInt(dp.val))), e, None, "post")
    ctx.check("exactly one call site of np.format_float_positional", z3.BoolVal(len(calls) == 1), None, None, "post")
    if len(calls) == 1:
        pc, arg, kw = calls[0]
        def is_(k, py): 
            val = kw.get(k)
            if isinstance(py, bool): return isinstance(val, VBool) and z3.is_true(simp(val.t)) == py and (z3.is_true(simp(val.t)) or z3.is_false(simp(val.t)))
            return isinstance(val, VStr) and val.py == py
        ctx.check("call-argument obligation: format_float_positional(number, precision=decimal_places, unique=True, fractional=True, sign=False, trim='-') — the configuration the bounded grid certifies",
                  AND(z3.BoolVal(set(kw) == {"precision", "unique", "fractional", "sign", "trim"} and is_("unique", True) and is_("fractional", True) and is_("sign", False) and is_("trim", "-")),
                      v_same(kw["precision"], dp) if "precision" in kw else F, v_same(arg, v)), None, None, "post")
    ctx.trust("np.isfinite(float(x)) is 'x is finite'", "np.format_float_positional: result is a plain signed decimal within half a unit of the last place (BOUNDED grid check, not proof)")


@unit("DefaultFormatter.parameters", ["C08"])
def u_parameters(ctx):
    st = State(T, {}, {}, []); x = ctx.executor(); install_strings(x, ctx)
    f, dp = mk_formatter(st, ";")
    numtxt = z3.Function("numtxt", z3.RealSort(), S)
    x.contracts[("DefaultFormatter", "number")] = lambda x_, recv, args, kwargs, st_: VStr(None, numtxt(x_.as_num(st_, args[0]).val))     # verified in its own unit
    keys = ["Z", "F", "x", "K"]          # K carries a numpy scalar (np.float32): a Number that is not a python float          # given out of order and in mixed case on purpose: axes must come first, in X, Y, Z order
    d = VDict({}, {})
    vals = {}
    for k in keys:
        o, wf = opt_num(f"p_{k}", finite=True); ctx.assume(wf)
        if k.upper() not in AXES: o = VOpt(F, o.inner)
        if k == "K": o.inner.pytype = "np.float32"
        d.present[k] = fresh(f"given_{k}", z3.BoolSort()); d.vals[k] = o; vals[k] = o
    pd = st.alloc("dict", {"$d": d})
    exits = ctx.run(x, "DefaultFormatter.parameters", [f, pd], {}, st)
    covers(ctx, exits); never_raises(ctx, exits)
    lab = st.heap[st.heap[f.oid]["_labels"].oid]["$d"].vals
    sp = z3.StringVal(" ")
    def word(g, label, o): return ITE(AND(g, NOT(o.none)), z3.Concat(sp, label, numtxt(o.inner.val)), z3.StringVal(""))
    # expected text: axis words first (X, Y, Z order, only when not None), then the other keys in the order given, single spaces, no leading space
    full = z3.Concat(word(d.present["x"], lab["X"].z(), vals["x"]), word(d.present["Z"], lab["Z"].z(), vals["Z"]),
                     word(d.present["F"], z3.StringVal("F"), vals["F"]), word(d.present["K"], z3.StringVal("K"), vals["K"]))
    for e in exits:
        if e.kind != "return": continue
        r = e.payload.z()
        ctx.check("address words: axis labels first in X,Y,Z order, then the other keys; <label><number> separated by single spaces; None axes omitted",
                  ITE(z3.Length(full) == 0, r == z3.StringVal(""), z3.Concat(sp, r) == full), e, None, "post")
        ctx.canary("canary: F comes before the axes", z3.PrefixOf(z3.StringVal("F"), r), e)


# ---------------------------------------------------------------------------------------------- GCodeCore text entry points (string level)
def _core_text_unit(method, mk, expect):
    @unit(f"GCodeCore.{method}[string level]", ["C09", "C08"])
    def u(ctx):
        st = State(T, {}, {}, []); x = ctx.executor(); install_strings(x, ctx)
        f, dp = mk_formatter(st, "(")
        g = st.alloc("GCodeCore", {"_formatter": f, "_logger": NONE})
        written = []
        x.contracts[("GCodeCore", "write")] = lambda x_, recv, a, k, st_: (written.append((st_.pc, a[0])), NONE)[1]
        fcalls = []
        orig = None
        def h_comment(x_, recv, a, k, st_):
            fcalls.append(a[0]); r = VStr(None, z3.Function("formatted_comment", S, S)(a[0].z())); return r
        x.contracts[("DefaultFormatter", "comment")] = h_comment                  # confinement of comment(): its own units
        args, wf = mk(ctx)
        x.ext["str"] = lambda x_, v, st_, n: v if isinstance(v, VStr) else VStr(None, fresh("str", S))
        def str_join(x_, sep, els, st_, n):
            parts = []
            for i, (g_, v) in enumerate(els):
                if i: parts.append(sep.z())
                parts.append(x_.to_str(v, st_, n).z())
            return VStr(None, z3.Concat(*parts) if len(parts) > 1 else (parts[0] if parts else z3.StringVal("")))
        x.ext["str.join"] = str_join
        x.ext["str.isidentifier"] = lambda x_, recv, a, k, st_, n: VBool(z3.Function("isidentifier", S, z3.BoolSort())(recv.z()))
        exits = ctx.run(x, f"GCodeCore.{method}", [g] + args, {}, st)
        covers(ctx, exits)
        for e in exits:
            if e.kind != "return": continue
            ctx.check("the WHOLE caller-supplied text goes through format.comment() exactly once, and exactly its result is written",
                      AND(z3.BoolVal(len(fcalls) == 1 and len(written) == 1), (fcalls[0].z() == expect(args)) if fcalls else F,
                          (written[0][1].z() == z3.Function("formatted_comment", S, S)(fcalls[0].z())) if (fcalls and written) else F), e, None, "post")
    return u


def _mk_comment(ctx):
    m = VStr(None, fresh("message", S)); a1 = VStr(None, fresh("arg1", S)); a2 = VStr(None, fresh("arg2", S))
    return [m, a1, a2], T


_core_text_unit("comment", _mk_comment, lambda a: z3.Concat(a[0].z(), z3.StringVal(" "), a[1].z(), z3.StringVal(" "), a[2].z()))
_core_text_unit("annotate", lambda ctx: ([VStr(None, fresh("key", S)), VStr(None, fresh("value", S))], T),
                lambda a: z3.Concat(z3.StringVal("@set "), a[0].z(), z3.StringVal(" = "), a[1].z()))
