"""Bounded stand-ins (labelled; never counted as proved).  BOUNDED[prop] = [(name, fn(tier, seed) -> dict)]"""
BOUNDED = {}
