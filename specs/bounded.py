"""Bounded stand-ins (labelled; never counted as proved).  BOUNDED[prop] = [(name, fn(tier, seed) -> dict)]

Each stands in for an ASSUMED contract of a library function that the deductive obligations rest on: the real library is
run on a finite, stated set of inputs and compared with the contract."""
import random, re, sys, os, json, math
from fractions import Fraction

REPO = os.environ.get("GSCRIB_REPO", "/repo")
if REPO not in sys.path: sys.path.insert(0, REPO)

BOUNDED = {}


def bounded(prop, name):
    def deco(fn):
        BOUNDED.setdefault(prop, []).append((name, fn)); return fn
    return deco


def _save(prop, name, payload):
    root = os.path.dirname(os.path.dirname(os.path.abspath(__file__)))
    os.makedirs(os.path.join(root, "replays"), exist_ok=True)
    path = os.path.join(root, "replays", f"{prop}_bounded_{name}.json")
    with open(path, "w") as f: json.dump(payload, f, indent=1, default=str)
    return path


# ---------------------------------------------------------------------------------------------- C18: report tokenisation
def _dec(rnd):
    s = rnd.choice(["", "-"]) + str(rnd.randint(0, 9999))
    if rnd.random() < 0.7: s += "." + str(rnd.randint(0, 999999)).zfill(rnd.randint(1, 6))
    return s


def _gen_report(rnd):
    """(line, expected tokens [(key, valuetext)]) from an independent generator of the four report families"""
    fam = rnd.choice(["marlin_pos", "marlin_temp", "grbl_status", "grbl_prb"])
    toks = []
    if fam == "marlin_pos":
        letters = rnd.sample(["X", "Y", "Z", "E"], rnd.randint(1, 4))
        parts = []
        for l in letters:
            v = _dec(rnd); parts.append(f"{l}:{v}"); toks.append((l, v))
        line = " ".join(parts)
        if rnd.random() < 0.7:
            cparts = []
            for l in rnd.sample(["X", "Y", "Z"], rnd.randint(1, 3)):
                v = str(rnd.randint(-99999, 99999)); cparts.append(f"{l}:{v}"); toks.append((l, v))
            line += " Count " + " ".join(cparts)
    elif fam == "marlin_temp":
        parts = []
        for l in rnd.sample(["T", "B", "C", "T0", "T1"], rnd.randint(1, 4)):
            v, tgt = _dec(rnd).lstrip("-"), _dec(rnd).lstrip("-")
            parts.append(f"{l}:{v} /{tgt}"); toks.append((l, v))
        if rnd.random() < 0.5:
            v = str(rnd.randint(0, 127)); parts.append(f"@:{v}")          # '@' is not alphanumeric: not a token
        line = ("ok " if rnd.random() < 0.5 else "") + " ".join(parts)
    elif fam == "grbl_status":
        fields = []
        kind = rnd.choice(["MPos", "WPos"])
        cs = [_dec(rnd) for _ in range(rnd.randint(3, 6))]
        fields.append((kind, ",".join(cs)))
        if rnd.random() < 0.8: fields.append(("FS", f"{rnd.randint(0, 9999)},{rnd.randint(0, 24000)}"))
        if rnd.random() < 0.3: fields.append(("Bf", f"{rnd.randint(0, 15)},{rnd.randint(0, 128)}"))
        rnd.shuffle(fields)
        toks = list(fields)
        line = "<" + rnd.choice(["Idle", "Run", "Hold"]) + "|" + "|".join(f"{k}:{v}" for k, v in fields) + ">"
    else:
        cs = [_dec(rnd) for _ in range(3)]
        toks = [("PRB", ",".join(cs))]
        line = f"[PRB:{','.join(cs)}:{rnd.randint(0, 1)}]"
    return line, toks


def _expected_readings(line, toks):
    out = {}
    def upd(k, v):
        if k not in out: out[k] = v
    for k, v in toks:
        if len(k) == 1 and k.isalnum(): upd(k, float(v))
        elif k == "FS" and line.startswith("<"):
            a, b = v.split(","); upd("F", float(a)); upd("S", float(b))
        elif k in ("MPos", "WPos", "PRB"):
            for ax, c in zip("XYZABC", v.split(",")): upd(ax, float(c))
    return out


@bounded("C18", "report-tokenisation")
def c18_tokens(tier, seed):
    from gscrib.writers import printrun_writer as pw
    from gscrib.params import ParamsDict
    import logging
    rnd = random.Random(seed or 1)
    n = 3000 if tier == "quick" else 100000
    bad = []
    for i in range(n):
        line, toks = _gen_report(rnd)
        got = pw.VALUE_PATTERN.findall(line.strip())
        # contract: findall yields exactly the (key, value-text) tokens of the report, in order (values keep their text)
        if [(k, v) for k, v in got] != toks:
            bad.append({"line": line, "expected_tokens": toks, "findall": got}); break
        w = pw.PrintrunWriter.__new__(pw.PrintrunWriter)
        w._reported_params = set(); w._current_params = ParamsDict(); w._logger = logging.getLogger("verif")
        w._current_params["Q"] = 42.0
        class _Ev:
            def set(self): pass
        w._ack_event = _Ev(); w._device_error = None
        w._on_device_message(line)
        exp = _expected_readings(line.strip(), toks); exp.setdefault("Q", 42.0)
        got_r = dict(w._current_params)
        if got_r != exp:
            bad.append({"line": line, "expected_readings": exp, "got": got_r}); break
    res = {"name": "report-tokenisation", "cases": n, "bounded": True,
           "summary": f"{n} generated Marlin/Grbl reports (seeded): VALUE_PATTERN.findall == independent tokenisation; end-to-end readings == first-occurrence spec",
           "status": "violated" if bad else "held"}
    if bad: res["replay"] = {"reproduced": True, "path": _save("C18", "report-tokenisation", bad[0]), "witness": bad[0]}
    return res


# ---------------------------------------------------------------------------------------------- C14: real writers, real files
@bounded("C14", "writer-histories-on-real-files")
def c14_histories(tier, seed):
    """bounded stand-in for the assumed file-object contract: random histories over real path files / streams / custom writers"""
    import io, tempfile, shutil
    from gscrib import GCodeCore
    from gscrib.writers import FileWriter
    from gscrib.writers.base_writer import BaseWriter
    class Cap(BaseWriter):
        def __init__(self): self.got = []; self.connected = True
        def connect(self): self.connected = True; return self
        def disconnect(self, wait=True): self.connected = False
        def write(self, b): self.got.append(bytes(b))
    rnd = random.Random(seed or 1)
    n = 60 if tier == "quick" else 2000
    root = os.path.dirname(os.path.dirname(os.path.abspath(__file__)))
    tmp = tempfile.mkdtemp(dir=os.environ.get("TMPDIR", os.path.join(root, ".tmp")))
    bad, known_seen = [], 0
    try:
        for h in range(n):
            eol = rnd.choice(["\\n", "\\r\\n"])
            g = GCodeCore(line_endings=eol)
            real_eol = eol.encode().decode("unicode-escape")
            pool = []
            for k in range(3):
                kind = rnd.choice(["path", "text", "binary", "custom"])
                if kind == "path": w = FileWriter(os.path.join(tmp, f"h{h}_{k}.gcode")); sink = w._output
                elif kind == "text": sink = io.StringIO(newline=""); w = FileWriter(sink)
                elif kind == "binary": sink = io.BytesIO(); w = FileWriter(sink)
                else: w = Cap(); sink = w
                pool.append(dict(kind=kind, w=w, sink=sink, expect=b"", ever_disconnected_with_output=False))
            registered, trace = [], []
            for step in range(rnd.randint(3, 12)):
                op = rnd.choice(["add", "add", "remove", "write", "write", "write", "flush", "teardown"])
                if op == "add":
                    p = rnd.choice(pool); g.add_writer(p["w"]); trace.append(("add", pool.index(p)))
                    if p not in registered: registered.append(p)
                elif op == "remove":
                    p = rnd.choice(pool); g.remove_writer(p["w"]); trace.append(("remove", pool.index(p)))
                    if p in registered: registered.remove(p)
                elif op == "write":
                    txt = rnd.choice(["G1 X1", "G0 Z5 ; héllo ünïcode", "M3 S1000   ", "; comment only"])
                    g.comment(txt) if txt.startswith(";") and False else g.write(txt)
                    data = (txt.rstrip() + real_eol).encode("utf-8"); trace.append(("write", txt))
                    for p in registered:
                        if p["kind"] == "path" and p["ever_disconnected_with_output"]: p["expect"] = b""; p["ever_disconnected_with_output"] = False; p["truncated"] = True
                        p["expect"] += data
                elif op == "flush": g.flush(); trace.append(("flush",))
                else:
                    g.teardown(); trace.append(("teardown",))
                    for p in registered:
                        if p["kind"] == "path" and p["expect"]: p["ever_disconnected_with_output"] = True
                    registered = []
                if op in ("flush", "teardown"):
                    for p in pool:
                        if p["kind"] == "path":
                            got = open(p["sink"], "rb").read() if os.path.exists(p["sink"]) else b""
                        elif p["kind"] == "text": got = p["sink"].getvalue().encode("utf-8")
                        elif p["kind"] == "binary": got = p["sink"].getvalue()
                        else: got = b"".join(p["sink"].got)
                        if p.get("truncated"): known_seen += 1
                        if got != p["expect"]: bad.append({"history": trace, "writer": p["kind"], "expected": p["expect"].decode(), "got": got.decode(errors="replace")})
                if bad: break
            g.teardown()
            if bad: break
    finally:
        shutil.rmtree(tmp, ignore_errors=True)
    res = {"name": "writer-histories-on-real-files", "cases": n, "bounded": True, "status": "violated" if bad else "held",
           "summary": f"{n} random histories (<=12 steps, 3 writers: path file / text / binary stream / custom) on the real OS; oracle = concatenation of delivered lines, "
                      f"with the known finding (reopen truncates) modelled; histories that exercised the known finding: {known_seen}"}
    if bad: res["replay"] = {"reproduced": True, "path": _save("C14", "writer-histories", bad[0]), "witness": bad[0]}
    return res
