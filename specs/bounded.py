"""Bounded stand-ins (labelled; never counted as proved).  BOUNDED[prop] = [(name, fn(tier, seed) -> dict)]

Each stands in for an ASSUMED contract of a library function that the deductive obligations rest on: the real library is
run on a finite, stated set of inputs and compared with the contract."""
import random, re, sys, os, json, math
from fractions import Fraction

REPO = os.environ.get("GSCRIB_REPO", "/repo")
if REPO not in sys.path: sys.path.insert(0, REPO)

BOUNDED = {}


def bounded(prop, name):
    def deco(fn):
        BOUNDED.setdefault(prop, []).append((name, fn)); return fn
    return deco


def _save(prop, name, payload):
    root = os.path.dirname(os.path.dirname(os.path.abspath(__file__)))
    os.makedirs(os.path.join(root, "replays"), exist_ok=True)
    path = os.path.join(root, "replays", f"{prop}_bounded_{name}.json")
    with open(path, "w") as f: json.dump(payload, f, indent=1, default=str)
    return path


# ---------------------------------------------------------------------------------------------- C18: report tokenisation
def _dec(rnd):
    s = rnd.choice(["", "-"]) + str(rnd.randint(0, 9999))
    if rnd.random() < 0.7: s += "." + str(rnd.randint(0, 999999)).zfill(rnd.randint(1, 6))
    return s


def _gen_report(rnd):
    """(line, expected tokens [(key, valuetext)]) from an independent generator of the four report families"""
    fam = rnd.choice(["marlin_pos", "marlin_temp", "grbl_status", "grbl_prb"])
    toks = []
    if fam == "marlin_pos":
        letters = rnd.sample(["X", "Y", "Z", "E"], rnd.randint(1, 4))
        parts = []
        for l in letters:
            v = _dec(rnd); parts.append(f"{l}:{v}"); toks.append((l, v))
        line = " ".join(parts)
        if rnd.random() < 0.7:
            cparts = []
            for l in rnd.sample(["X", "Y", "Z"], rnd.randint(1, 3)):
                v = str(rnd.randint(-99999, 99999)); cparts.append(f"{l}:{v}"); toks.append((l, v))
            line += " Count " + " ".join(cparts)
    elif fam == "marlin_temp":
        parts = []
        for l in rnd.sample(["T", "B", "C", "T0", "T1"], rnd.randint(1, 4)):
            v, tgt = _dec(rnd).lstrip("-"), _dec(rnd).lstrip("-")
            parts.append(f"{l}:{v} /{tgt}"); toks.append((l, v))
        if rnd.random() < 0.5:
            v = str(rnd.randint(0, 127)); parts.append(f"@:{v}")          # '@' is not alphanumeric: not a token
        line = ("ok " if rnd.random() < 0.5 else "") + " ".join(parts)
    elif fam == "grbl_status":
        fields = []
        kind = rnd.choice(["MPos", "WPos"])
        cs = [_dec(rnd) for _ in range(rnd.randint(3, 6))]
        fields.append((kind, ",".join(cs)))
        if rnd.random() < 0.8: fields.append(("FS", f"{rnd.randint(0, 9999)},{rnd.randint(0, 24000)}"))
        if rnd.random() < 0.3: fields.append(("Bf", f"{rnd.randint(0, 15)},{rnd.randint(0, 128)}"))
        rnd.shuffle(fields)
        toks = list(fields)
        line = "<" + rnd.choice(["Idle", "Run", "Hold"]) + "|" + "|".join(f"{k}:{v}" for k, v in fields) + ">"
    else:
        cs = [_dec(rnd) for _ in range(3)]
        toks = [("PRB", ",".join(cs))]
        line = f"[PRB:{','.join(cs)}:{rnd.randint(0, 1)}]"
    return line, toks


def _expected_readings(line, toks):
    out = {}
    def upd(k, v):
        if k not in out: out[k] = v
    for k, v in toks:
        if len(k) == 1 and k.isalnum(): upd(k, float(v))
        elif k == "FS" and line.startswith("<"):
            a, b = v.split(","); upd("F", float(a)); upd("S", float(b))
        elif k in ("MPos", "WPos", "PRB"):
            for ax, c in zip("XYZABC", v.split(",")): upd(ax, float(c))
    return out


@bounded("C18", "report-tokenisation")
def c18_tokens(tier, seed):
    from gscrib.writers import printrun_writer as pw
    from gscrib.params import ParamsDict
    import logging
    rnd = random.Random(seed or 1)
    n = 3000 if tier == "quick" else 100000
    bad = []
    for i in range(n):
        line, toks = _gen_report(rnd)
        got = pw.VALUE_PATTERN.findall(line.strip())
        # contract: findall yields exactly the (key, value-text) tokens of the report, in order (values keep their text)
        if [(k, v) for k, v in got] != toks:
            bad.append({"line": line, "expected_tokens": toks, "findall": got}); break
        w = pw.PrintrunWriter.__new__(pw.PrintrunWriter)
        w._reported_params = set(); w._current_params = ParamsDict(); w._logger = logging.getLogger("verif")
        w._current_params["Q"] = 42.0
        class _Ev:
            def set(self): pass
        w._ack_event = _Ev(); w._device_error = None
        w._on_device_message(line)
        exp = _expected_readings(line.strip(), toks); exp.setdefault("Q", 42.0)
        got_r = dict(w._current_params)
        if got_r != exp:
            bad.append({"line": line, "expected_readings": exp, "got": got_r}); break
    res = {"name": "report-tokenisation", "cases": n, "bounded": True,
           "summary": f"{n} generated Marlin/Grbl reports (seeded): VALUE_PATTERN.findall == independent tokenisation; end-to-end readings == first-occurrence spec",
           "status": "violated" if bad else "held"}
    if bad: res["replay"] = {"reproduced": True, "path": _save("C18", "report-tokenisation", bad[0]), "witness": bad[0]}
    return res


# ---------------------------------------------------------------------------------------------- C14: real writers, real files
@bounded("C14", "writer-histories-on-real-files")
def c14_histories(tier, seed):
    """bounded stand-in for the assumed file-object contract: random histories over real path files / streams / custom writers"""
    import io, tempfile, shutil
    from gscrib import GCodeCore
    from gscrib.writers import FileWriter
    from gscrib.writers.base_writer import BaseWriter
    class Cap(BaseWriter):
        def __init__(self): self.got = []; self.connected = True
        def connect(self): self.connected = True; return self
        def disconnect(self, wait=True): self.connected = False
        def write(self, b): self.got.append(bytes(b))
    rnd = random.Random(seed or 1)
    n = 60 if tier == "quick" else 2000
    root = os.path.dirname(os.path.dirname(os.path.abspath(__file__)))
    tmp = tempfile.mkdtemp(dir=os.environ.get("TMPDIR", os.path.join(root, ".tmp")))
    bad, known_seen = [], 0
    try:
        for h in range(n):
            eol = rnd.choice(["\\n", "\\r\\n"])
            g = GCodeCore(line_endings=eol)
            real_eol = eol.encode().decode("unicode-escape")
            pool = []
            for k in range(3):
                kind = rnd.choice(["path", "text", "binary", "custom"])
                if kind == "path": w = FileWriter(os.path.join(tmp, f"h{h}_{k}.gcode")); sink = w._output
                elif kind == "text": sink = io.StringIO(newline=""); w = FileWriter(sink)
                elif kind == "binary": sink = io.BytesIO(); w = FileWriter(sink)
                else: w = Cap(); sink = w
                pool.append(dict(kind=kind, w=w, sink=sink, expect=b"", ever_disconnected_with_output=False))
            registered, trace = [], []
            for step in range(rnd.randint(3, 12)):
                op = rnd.choice(["add", "add", "remove", "write", "write", "write", "flush", "teardown"])
                if op == "add":
                    p = rnd.choice(pool); g.add_writer(p["w"]); trace.append(("add", pool.index(p)))
                    if p not in registered: registered.append(p)
                elif op == "remove":
                    p = rnd.choice(pool); g.remove_writer(p["w"]); trace.append(("remove", pool.index(p)))
                    if p in registered: registered.remove(p)
                elif op == "write":
                    txt = rnd.choice(["G1 X1", "G0 Z5 ; héllo ünïcode", "M3 S1000   ", "; comment only"])
                    g.comment(txt) if txt.startswith(";") and False else g.write(txt)
                    data = (txt.rstrip() + real_eol).encode("utf-8"); trace.append(("write", txt))
                    for p in registered:
                        if p["kind"] == "path" and p["ever_disconnected_with_output"]: p["expect"] = b""; p["ever_disconnected_with_output"] = False; p["truncated"] = True
                        p["expect"] += data
                elif op == "flush": g.flush(); trace.append(("flush",))
                else:
                    g.teardown(); trace.append(("teardown",))
                    for p in registered:
                        if p["kind"] == "path" and p["expect"]: p["ever_disconnected_with_output"] = True
                    was_registered, registered = registered, []
                if op in ("flush", "teardown"):
                    # the statement speaks about the outputs the builder flushes / tears down: the writers registered at that moment
                    # (a writer removed earlier keeps its own buffer until somebody flushes or closes it)
                    for p in (registered if op == "flush" else was_registered):
                        if p["kind"] == "path":
                            got = open(p["sink"], "rb").read() if os.path.exists(p["sink"]) else b""
                        elif p["kind"] == "text": got = p["sink"].getvalue().encode("utf-8")
                        elif p["kind"] == "binary": got = p["sink"].getvalue()
                        else: got = b"".join(p["sink"].got)
                        if p.get("truncated"): known_seen += 1
                        if got != p["expect"]: bad.append({"history": trace, "writer": p["kind"], "expected": p["expect"].decode(), "got": got.decode(errors="replace")})
                    if op == "teardown":
                        # teardown disconnects EVERY registered output and leaves none registered
                        for p in was_registered:
                            if p["kind"] == "custom" and p["w"].connected:
                                bad.append({"history": trace, "writer": p["kind"], "expected": "disconnected by teardown()", "got": "still connected"})
                    # an output that is not registered receives nothing: what it holds is a prefix of what was delivered to it while it was registered
                    for p in pool:
                        if p in registered or p["kind"] == "path": continue
                        got = p["sink"].getvalue().encode("utf-8") if p["kind"] == "text" else p["sink"].getvalue() if p["kind"] == "binary" else b"".join(p["sink"].got)
                        if not p["expect"].startswith(got):
                            bad.append({"history": trace, "writer": p["kind"], "expected": "nothing beyond " + p["expect"].decode(), "got": got.decode(errors="replace")})
                if bad: break
            g.teardown()
            if bad: break
    finally:
        shutil.rmtree(tmp, ignore_errors=True)
    res = {"name": "writer-histories-on-real-files", "cases": n, "bounded": True, "status": "violated" if bad else "held",
           "summary": f"{n} random histories (<=12 steps, 3 writers: path file / text / binary stream / custom) on the real OS; oracle = concatenation of delivered lines, "
                      f"with the known finding (reopen truncates) modelled; histories that exercised the known finding: {known_seen}"}
    if bad: res["replay"] = {"reproduced": True, "path": _save("C14", "writer-histories", bad[0]), "witness": bad[0]}
    return res


# ---------------------------------------------------------------------------------------------- C08: numpy positional formatting
@bounded("C08", "number-formatting-grid")
def c08_grid(tier, seed):
    """bounded stand-in for the numeric clause: DefaultFormatter.number(x) is a plain signed decimal within half a unit of the last
    configured decimal place of x (exact rational arithmetic), over a grid of doubles x all precisions 0..12"""
    import numpy as np
    from gscrib.formatters import DefaultFormatter
    rnd = random.Random(seed or 1)
    vals = [0.0, -0.0, 5e-324, -5e-324, 2.2250738585072014e-308, 1e-7, 1.5e-5, 0.1, 0.5, 1.0, -1.0, 123.456, 1e15, -1e15, 999999999999999.9,
            0.30000000000000004, 2.675, 1.005, 0.125, 0.375, 1e-13, 4.35, 8.345, 1234567.891]
    for p in range(0, 13):          # values at rounding ties of every precision
        for k in (1, 3, 5, 7, 25, 12345):
            vals += [(2 * k + 1) / (2 * 10 ** p), -(2 * k + 1) / (2 * 10 ** p)]
    n_rand = 1500 if tier == "quick" else 200000
    for _ in range(n_rand):
        e = rnd.uniform(-16, 15); vals.append(rnd.choice([-1, 1]) * rnd.random() * 10 ** e)
    extra = [np.float32(0.1), np.float64(2.5), np.int64(7), 3, -12, True, np.float16(0.333)]
    dec = re.compile(r"^-?\d+(\.\d+)?$")
    f = DefaultFormatter()
    bad, worst, cases = [], Fraction(0), 0
    for p in range(0, 13):
        f.set_decimal_places(p)
        half = Fraction(1, 2 * 10 ** p)
        for v in vals + extra:
            cases += 1
            s = f.number(v)
            exact = Fraction(float(v)) if not isinstance(v, (int, bool)) else Fraction(int(v))
            if not dec.match(s): bad.append({"value": repr(v), "precision": p, "text": s, "why": "not a plain signed decimal"}); break
            if "." in s and len(s.split(".")[1]) > p: bad.append({"value": repr(v), "precision": p, "text": s, "why": "more decimals than configured"}); break
            err = abs(Fraction(s) - exact)
            # numpy rounds the SHORTEST REPR of the double, not the double itself: allow the distance between the two (< 1 ulp) on top of half a unit
            # (for numpy scalars narrower than a double the shortest repr is taken in the scalar's own precision: np.float16(0.333) prints as 0.333)
            own = np.format_float_positional(v, unique=True, trim="-") if isinstance(v, np.floating) else repr(float(v)) if not isinstance(v, (int, bool, np.integer)) else None
            slack = abs(Fraction(own) - exact) if own is not None else 0
            worst = max(worst, err - half)
            if err > half + slack: bad.append({"value": repr(v), "precision": p, "text": s, "error": str(err), "half_unit": str(half)}); break
        if bad: break
    # numpy scalars as axis AND non-axis words through the public API: every word must still be a plain decimal
    import io
    from gscrib import GCodeBuilder
    for val in (np.float32(1e-5), np.float16(0.25), np.int64(3), np.float64(1e-7)):
        o = io.StringIO(); g = GCodeBuilder(output=o, decimal_places=5)
        g.move(x=1.5, E=val, A=val); cases += 1       # (typeguard rejects numpy float32 as an axis coordinate; non-axis words accept it)
        words = o.getvalue().split(";")[0].split()[1:]
        if not all(re.match(r"^[A-Z]-?\d+(\.\d+)?$", w_) for w_ in words):
            bad.append({"value": repr(val), "line": o.getvalue(), "why": "a numpy scalar parameter was not written as a plain decimal"})
        try:
            GCodeBuilder(output=io.StringIO()).move(x=1, E=np.float32("nan")); bad.append({"value": "np.float32(nan) as E", "why": "non-finite non-axis parameter was written"})
        except ValueError: pass
    # non-finite values are rejected
    for v in (float("nan"), float("inf"), float("-inf"), np.float64("nan")):
        try:
            f.number(v); bad.append({"value": repr(v), "why": "non-finite value was formatted"})
        except ValueError: pass
    res = {"name": "number-formatting-grid", "cases": cases, "bounded": True, "status": "violated" if bad else "held",
           "summary": f"{cases} (value, precision) pairs: subnormals, ±0, ties at every precision 0..12, magnitudes to 1e15, numpy scalars, {n_rand} seeded random doubles; "
                      f"plain decimal, <= p decimals, |text - value| <= half unit (+ distance double↔shortest repr); worst excess over half a unit: {float(worst):.3e}"}
    if bad: res["replay"] = {"reproduced": True, "path": _save("C08", "number-grid", bad[0]), "witness": bad[0]}
    return res


# ---------------------------------------------------------------------------------------------- C09 / C08: text <-> block bridge
HOSTILE = ["hello", "", "  ", "a\nG1 X100", "a\r\nM3 S9000", "x\rG0 Z-5", "tab\tsep", "semi ; colon", "close ) paren ( open", "] } > \" ' */ /*",
           "unicode   sep   par \x85 nel", "\x0b\x0c vt ff", "G1 X1 Y2 ; G28", "ünïcödé ☃", "%", "N10 G1 X5*71", ")\n(G1 X9)", "*/ G1 X7 /*", "{}", "{0}", "{text}", "done **// G1 X99", "***///", "))", "]]", "a*\n/b", "*/*/", "' '' \"\""]


@bounded("C09", "comment-confinement-end-to-end")
def c09_bridge(tier, seed):
    """bounded stand-in for the text<->block bridge and for the assumed splitlines/replace contracts: real builder, hostile comment
    text through every entry point and every comment style; the output is cut into lines and lexed by the independent lexer"""
    import io
    from gscrib import GCodeBuilder
    from specs.lexer import lex_line, split_lines, strip_comment
    rnd = random.Random(seed or 1)
    texts = list(HOSTILE)
    alphabet = "ab \n\r;()[]{}<>\"'/*\\%G1X \t "
    for _ in range(60 if tier == "quick" else 5000):
        texts.append("".join(rnd.choice(alphabet) for _ in range(rnd.randint(0, 12))))
    styles = [";", "(", "[", "{", "<", '"', "'", "/*", "#", "//"]
    def program(g, t):
        g.comment(t); g.comment(t, 1, "x"); g.comment("note", t, 5); g.annotate("key", t); g.move(x=1, y=2.5, comment=t); g.rapid(z=3, comment=t)
        g.set_axis(x=0, comment=t); g.move_absolute(x=4, comment=t); g.probe("towards", z=-1, comment=t); g.auto_home(comment=t)
        g.emergency_halt(t)
    bad, cases = [], 0
    for style in styles:
        for eol in ("\\n", "\\r\\n"):
            real_eol = eol.encode().decode("unicode-escape")
            def run(t):
                o = io.BytesIO(); g = GCodeBuilder(output=o, comment_symbols=style, line_endings=eol); program(g, t); g.flush()
                return split_lines(o.getvalue(), real_eol)
            ref = [lex_line(l, style) for l in run("x")]
            for t in texts:
                cases += 1
                try: lines = run(t)
                except Exception as e:
                    bad.append({"style": style, "text": t, "why": f"raised {type(e).__name__}: {e}"}); break
                got = [lex_line(l, style) for l in lines]
                if len(lines) != len(ref): bad.append({"style": style, "text": t, "why": f"{len(lines)} lines instead of {len(ref)}", "lines": lines}); break
                if any(("\n" in l or "\r" in l) for l in lines): bad.append({"style": style, "text": t, "why": "line break inside a line body", "lines": lines}); break
                if [(a["cmds"], a["words"], a["junk"]) for a in got] != [(a["cmds"], a["words"], a["junk"]) for a in ref]:
                    bad.append({"style": style, "text": t, "why": "executable words differ from the run with an innocuous comment", "lines": lines}); break
            if bad: break
        if bad: break
    res = {"name": "comment-confinement-end-to-end", "cases": cases, "bounded": True, "status": "violated" if bad else "held",
           "summary": f"{cases} (style, line ending, text) combinations x 11 entry points: same number of lines and same executable words (independent lexer) as with the comment 'x'"}
    if bad: res["replay"] = {"reproduced": True, "path": _save("C09", "comment-bridge", bad[0]), "witness": bad[0]}
    return res


BOUNDED.setdefault("C08", []).append(("comment-confinement-end-to-end", c09_bridge))


# ---------------------------------------------------------------------------------------------- C10: arc_radius geometry (bounded)
@bounded("C10", "arc-radius-centre")
def c10_arc_radius(tier, seed):
    """bounded stand-in for the two arc_radius clauses the solvers do not decide: the centre handed to arc() is at distance |radius|
    from both ends, on the side that makes the sweep minor for radius > 0 and major for radius < 0"""
    from gscrib import GCodeBuilder
    rnd = random.Random(seed or 1)
    n = 400 if tier == "quick" else 50000
    bad = []
    for i in range(n):
        g = GCodeBuilder()
        for w_ in list(g._writers): g.remove_writer(w_)
        ox, oy = rnd.uniform(-50, 50), rnd.uniform(-50, 50)
        g.set_axis(x=ox, y=oy, z=0)
        rel = rnd.random() < 0.5
        if rel: g.set_distance_mode("relative")
        g.set_direction(rnd.choice(["cw", "ccw"]))
        tx, ty = rnd.uniform(-50, 50), rnd.uniform(-50, 50)
        d = math.hypot(tx - ox, ty - oy)
        if d < 1e-3: continue
        r = rnd.choice([-1, 1]) * d / 2 * rnd.uniform(1.0001, 4.0)
        seen = {}
        orig = g.trace.arc
        def spy(target, center, **kw): seen["c"] = center
        g.trace.arc = spy
        try:
            g.trace.arc_radius((tx - ox, ty - oy) if rel else (tx, ty), r)
        finally:
            g.trace.arc = orig
        cx, cy = ox + seen["c"][0], oy + seen["c"][1]
        e1, e2 = math.hypot(cx - ox, cy - oy), math.hypot(cx - tx, cy - ty)
        cross = (tx - ox) * (cy - oy) - (ty - oy) * (cx - ox)
        cw = g.state.direction.value == "clockwise"
        minor = (cross <= 1e-9) if cw else (cross >= -1e-9)
        major = (cross >= -1e-9) if cw else (cross <= 1e-9)
        if abs(e1 - abs(r)) > 1e-7 * max(1, abs(r)) or abs(e2 - abs(r)) > 1e-7 * max(1, abs(r)) or (r > 0 and not minor) or (r < 0 and not major):
            bad.append({"start": [ox, oy], "target": [tx, ty], "radius": r, "relative": rel, "direction": g.state.direction.value, "centre": [cx, cy], "dist_start": e1, "dist_target": e2, "cross": cross}); break
    res = {"name": "arc-radius-centre", "cases": n, "bounded": True, "status": "violated" if bad else "held",
           "summary": f"{n} seeded random (start, target, radius, direction, mode): centre handed to arc() is |radius| from both ends (1e-7 rel.) and on the minor/major side by the sign of the radius"}
    if bad: res["replay"] = {"reproduced": True, "path": _save("C10", "arc-radius", bad[0]), "witness": bad[0]}
    return res


# ---------------------------------------------------------------------------------------------- C10/C11/C12: real tracer, end to end (bounded)
def _trace_vertices(setup, shape, rel, res, units=None):
    """absolute machine vertices produced by one tracer call on the real builder (independent G0/G1/G90/G91 interpreter on the output)"""
    import io
    from gscrib import GCodeBuilder
    from specs.lexer import lex_line
    o = io.BytesIO(); g = GCodeBuilder(output=o, decimal_places=9, line_endings="\\n")
    g.set_resolution(res)
    g.set_axis(x=setup[0], y=setup[1], z=setup[2])
    g.set_direction(shape.get("dir", "cw"))
    if rel: g.set_distance_mode("relative")
    start = (setup[0], setup[1], setup[2])
    def T(p):   # express an absolute target in the current mode
        return tuple(a - b for a, b in zip(p, start)) if rel else p
    k = shape["kind"]
    if k == "arc": g.trace.arc(T(shape["target"]), shape["center"])
    elif k == "arc_radius": g.trace.arc_radius(T(shape["target"]), shape["radius"])
    elif k == "circle": g.trace.circle(shape["center"])
    elif k == "helix": g.trace.helix(T(shape["target"]), shape["center"], shape["turns"])
    elif k == "spiral": g.trace.spiral(T(shape["target"]), shape["turns"])
    elif k == "thread": g.trace.thread(T(shape["target"]), shape["pitch"])
    elif k == "spline":
        pts, prev = [], start
        for p in shape["points"]:
            pts.append(tuple(a - b for a, b in zip(p, prev)) if rel else p); prev = p
        g.trace.spline(pts)
    elif k == "polyline":
        pts, prev = [], start
        for p in shape["points"]:
            pts.append(tuple(a - b for a, b in zip(p, prev)) if rel else p); prev = p
        g.trace.polyline(pts)
    g.flush()
    pos, relm, out = list(start), False, []
    for line in o.getvalue().decode().split("\n")[:-1]:
        L = lex_line(line)
        for c in L["cmds"]:
            if c == "G90": relm = False
            if c == "G91": relm = True
        if any(c in ("G1", "G01", "G0", "G00") for c in L["cmds"]):
            for i, a in enumerate("XYZ"):
                if a in L["words"]: pos[i] = pos[i] + L["words"][a] if relm else L["words"][a]
            out.append(tuple(pos))
        if "G92" in L["cmds"]:
            for i, a in enumerate("XYZ"):
                if a in L["words"]: pos[i] = L["words"][a]
    return out


def _rand_shape(rnd, start):
    k = rnd.choice(["arc", "arc_radius", "circle", "helix", "spiral", "thread", "spline", "polyline"])
    sx, sy, sz = start
    r = rnd.uniform(1, 30); a0 = rnd.uniform(-math.pi, math.pi); a1 = rnd.uniform(-math.pi, math.pi)
    cx, cy = sx - r * math.cos(a0), sy - r * math.sin(a0)
    s = {"kind": k, "dir": rnd.choice(["cw", "ccw"])}
    if k == "arc": s.update(target=(cx + r * math.cos(a1), cy + r * math.sin(a1), sz + rnd.uniform(-3, 3)), center=(cx - sx, cy - sy), r=r, c=(cx, cy))
    elif k == "arc_radius":
        t = (sx + rnd.uniform(-20, 20), sy + rnd.uniform(-20, 20), sz)
        d = math.hypot(t[0] - sx, t[1] - sy)
        if d < 0.5: t = (sx + 5, sy, sz); d = 5
        s.update(target=t, radius=rnd.choice([-1, 1]) * d / 2 * rnd.uniform(1.05, 3))
    elif k == "circle": s.update(center=(cx - sx, cy - sy), r=r, c=(cx, cy))
    elif k == "helix": s.update(target=(cx + rnd.uniform(1, 30) * math.cos(a1), cy + rnd.uniform(1, 30) * math.sin(a1), sz + rnd.uniform(-5, 5)), center=(cx - sx, cy - sy), turns=rnd.randint(1, 3), c=(cx, cy))
    elif k == "spiral": s.update(target=(sx + rnd.uniform(2, 20), sy + rnd.uniform(2, 20), sz + rnd.uniform(-2, 2)), turns=rnd.randint(1, 3))
    elif k == "thread": s.update(target=(sx + rnd.uniform(2, 10), sy + rnd.uniform(-10, 10), sz + rnd.uniform(2, 8)), pitch=rnd.uniform(0.5, 2))
    else:
        pts = [(sx + rnd.uniform(-20, 20), sy + rnd.uniform(-20, 20), sz + rnd.uniform(-2, 2)) for _ in range(rnd.randint(2, 5))]
        if rnd.random() < 0.4: pts.append(rnd.choice([start] + pts[:-1]))        # closed loops / revisited control points
        s.update(points=pts)
    if k == "arc" and rnd.random() < 0.4:                                         # steep helical arcs: Z travel dominates the planar length
        t = s["target"]; s["target"] = (t[0], t[1], sz + rnd.choice([-1, 1]) * rnd.uniform(40, 200))
    return s


def _shape_oracle(start, sh, res, stats=None):
    """native oracle for ONE tracer call on the real builder (both distance modes): -> list of violations (dicts with 'property' and 'why')"""
    stats = stats if stats is not None else {"shapes": 0, "c11_pairs": 0, "c12_constant_speed": 0}
    bad = []
    try:
        va = _trace_vertices(start, sh, False, res); vr = _trace_vertices(start, sh, True, res)
    except Exception as e:
        return [{"shape": sh, "start": start, "why": f"raised {type(e).__name__}: {e}"}]
    stats["shapes"] += 1
    # C11: same vertices in both distance modes
    stats["c11_pairs"] += 1
    # relative mode rounds every offset to the configured 9 decimals: the error accumulates linearly with the number of segments
    tol = 1e-6 + 1e-9 * len(va)
    if len(va) != len(vr) or any(max(abs(a - b) for a, b in zip(p, q)) > tol for p, q in zip(va, vr)):
        return [{"property": "C11", "shape": sh, "start": start, "resolution": res, "abs": va[:3], "rel": vr[:3], "why": "absolute and relative runs differ"}]
    tgt = sh.get("target") or (sh.get("points") or [start])[-1] if sh["kind"] != "circle" else start
    if max(abs(a - b) for a, b in zip(va[-1], tgt)) > 1e-6:
        return [{"property": "C10", "shape": sh, "start": start, "why": f"ends on {va[-1]} instead of {tgt}"}]
    if sh["kind"] in ("arc", "circle"):
        cx, cy = sh["c"]
        if any(abs(math.hypot(p[0] - cx, p[1] - cy) - sh["r"]) > 1e-6 * max(1.0, sh["r"]) for p in va):
            return [{"property": "C10", "shape": sh, "start": start, "why": "vertex off the circle"}]
    if sh["kind"] == "thread":
        mx, my = (start[0] + sh["target"][0]) / 2, (start[1] + sh["target"][1]) / 2
        r0 = math.hypot(start[0] - mx, start[1] - my)
        if any(abs(math.hypot(p[0] - mx, p[1] - my) - r0) > 1e-6 * max(1.0, r0) for p in va):
            return [{"property": "C10", "shape": sh, "start": start, "why": "thread radius not constant"}]
    if sh["kind"] == "spline":
        ctrl = sh["points"]; j = 0
        for c in ctrl:            # every control point, in order, within one resolution of some vertex
            while j < len(va) and math.dist(va[j], c) > res: j += 1
            if j == len(va): return [{"property": "C10", "shape": sh, "start": start, "resolution": res, "why": f"control point {c} not approached within one resolution, in order"}]
    if sh["kind"] == "polyline" and (len(va) != len(sh["points"]) or any(max(abs(a - b) for a, b in zip(p, q)) > 1e-6 for p, q in zip(va, sh["points"]))):
        return [{"property": "C10", "shape": sh, "start": start, "why": "polyline does not visit exactly the given points"}]
    # C12
    if sh["kind"] in ("arc", "circle", "arc_radius") and len(va) >= 4:
        # (for steep helical arcs the chord/arc ratio is still ~1: the bound applies to the 3-D segment length)
        stats["c12_constant_speed"] += 1
        # segment length is measured along the curve: a chord c of a circle of radius r subtends 2·asin(c / 2r), the helical arc over it is
        # hypot(r·angle, dz).  (Comparing the bare chord with 0.9·resolution is only right while the resolution is small against the radius: with four
        # segments per turn the chord is 10 % shorter than the arc it spans — the "chord-error bound implied by the segment length" of the statement.)
        rad = sh.get("r") or abs(sh.get("radius", 0.0))
        def along(p, q):
            cxy = math.hypot(p[0] - q[0], p[1] - q[1]); dz = p[2] - q[2]
            if rad <= 0 or cxy >= 2 * rad: return math.dist(p, q)
            return math.hypot(rad * 2 * math.asin(cxy / (2 * rad)), dz)
        pts = [start] + va
        segs = [along(p, q) for p, q in zip(pts[:-1], pts[1:])]
        chords = [math.dist(p, q) for p, q in zip(pts[:-1], pts[1:])]
        if max(chords) > 1.05 * res + 1e-9 or max(segs) > 1.05 * res + 1e-9 or min(segs[1:-1]) < 0.85 * res:
            return [{"property": "C12", "shape": sh, "start": start, "resolution": res, "max": max(segs), "min_interior": min(segs[1:-1]), "max_chord": max(chords),
                     "why": "segment length (along the curve) outside about [0.9, 1] resolution, or a chord longer than the resolution"}]
    vh = _trace_vertices(start, sh, False, res / 2)
    if len(vh) < len(va):
        return [{"property": "C12", "shape": sh, "start": start, "resolution": res, "why": f"halving the resolution gave fewer segments ({len(vh)} < {len(va)})"}]
    return bad


def _tracer_bounded(tier, seed):
    rnd = random.Random(seed or 1)
    n = 40 if tier == "quick" else 600        # every shape is traced three times (absolute, relative, half resolution): about a second per shape
    bad = []
    stats = {"shapes": 0, "c11_pairs": 0, "c12_constant_speed": 0}
    for i in range(n):
        start = (rnd.uniform(-40, 40), rnd.uniform(-40, 40), rnd.uniform(-5, 5))
        sh = _rand_shape(rnd, start)
        res = rnd.choice([0.05, 0.1, 0.5, 1.0, 2.0])
        bad += _shape_oracle(start, sh, res, stats)
        if len(bad) >= 5: break          # a violation of one property does not hide later shapes from the other two
    return bad, stats, n


def _tracer_res(prop):
    def f(tier, seed):
        bad, stats, n = _tracer_bounded(tier, seed)
        mine = [b for b in bad if b.get("property", prop) == prop or "property" not in b]
        res = {"name": "tracer-end-to-end", "cases": n, "bounded": True, "status": "violated" if mine else "held",
               "summary": f"{stats['shapes']} seeded random shapes (8 kinds, both directions, both distance modes, 5 resolutions) on the real builder, output read back by the independent "
                          f"interpreter: end on target, curve membership (arc/circle/thread), spline control points within one resolution in order, polyline exact, abs==rel vertex by vertex, "
                          f"segment lengths in about [0.9, 1]·resolution for constant-speed shapes ({stats['c12_constant_speed']}), halving the resolution never gives fewer segments"}
        if mine: res["replay"] = {"reproduced": True, "path": _save(prop, "tracer", mine[0]), "witness": mine[0]}
        return res
    return f


for _p in ("C10", "C11", "C12"):
    BOUNDED.setdefault(_p, []).append(("tracer-end-to-end", _tracer_res(_p)))


# ---------------------------------------------------------------------------------------------- C19: real interpolants (bounded)
@bounded("C19", "heightmaps-on-real-interpolants")
def c19_maps(tier, seed):
    """bounded stand-in for the assumed scipy / skimage contracts: random images and point sets, the real classes"""
    import numpy as np
    from gscrib.heightmaps import RasterHeightMap, SparseHeightMap
    rnd = random.Random(seed or 1); npr = np.random.default_rng(seed or 1)
    n = 12 if tier == "quick" else 400
    bad, cases = [], 0
    for i in range(n):
        # ---- raster
        hgt, wid = rnd.randint(4, 24), rnd.randint(4, 24)
        bits16 = rnd.random() < 0.5
        img = npr.integers(0, 65536 if bits16 else 256, size=(hgt, wid)).astype(np.uint16 if bits16 else np.uint8)
        m = RasterHeightMap(img); sc = rnd.uniform(0.1, 20); m.set_scale(sc)
        mx = 65535.0 if bits16 else 255.0
        for _ in range(40):
            cx, cy = rnd.randrange(wid), rnd.randrange(hgt); cases += 1
            want = sc * float(np.float32(img[cy, cx] / mx))
            got = m.get_depth_at(cx, cy)
            if abs(got - want) > 1e-4 * max(1.0, abs(want)): bad.append({"map": "raster", "why": "not scale x stored height at pixel (x = column, y = row)", "x": cx, "y": cy, "want": want, "got": float(got), "shape": [hgt, wid]}); break
        if i % 4 == 0:            # the same image through from_path (file on disk, 8 or 16 bit): the loader must keep the bit depth
            import cv2, tempfile
            root_ = os.path.dirname(os.path.dirname(os.path.abspath(__file__)))
            fd, pth = tempfile.mkstemp(suffix=".png", dir=os.environ.get("TMPDIR", os.path.join(root_, ".tmp"))); os.close(fd)
            try:
                cv2.imwrite(pth, img)
                m2 = RasterHeightMap.from_path(pth); m2.set_scale(sc); cases += 1
                cx, cy = rnd.randrange(wid), rnd.randrange(hgt)
                want = sc * float(np.float32(img[cy, cx] / mx))
                if abs(m2.get_depth_at(cx, cy) - want) > 1e-4 * max(1.0, abs(want)):
                    bad.append({"map": "raster(from_path)", "why": "a map loaded from an image file does not return scale x stored height", "bits": 16 if bits16 else 8, "x": cx, "y": cy, "want": want, "got": float(m2.get_depth_at(cx, cy))})
            finally:
                os.unlink(pth)
            if bad: break
        for (qx, qy) in [(-0.5, 1), (wid, 1), (1, -1e-9), (1, hgt), (wid + 3, hgt + 3)]:
            cases += 1
            if m.get_depth_at(qx, qy) != 0.0: bad.append({"map": "raster", "why": "non-zero outside the image", "x": qx, "y": qy}); break
        if bad: break
        tol = rnd.uniform(0.01, 0.5) * sc; m.set_tolerance(tol)
        line = [rnd.randrange(wid), rnd.randrange(hgt), rnd.randrange(wid), rnd.randrange(hgt)]
        out = m.sample_path(line); cases += 1
        full = m._interpolate_line(np.asarray(line, dtype=float))
        err = _check_samples(out, full, line, tol, lambda x, y: m.get_depth_at(x, y))
        if err: bad.append({"map": "raster", "why": err, "line": line, "tolerance": tol}); break
        # ---- sparse
        k = rnd.randint(4, 30)
        pts = np.column_stack([npr.uniform(0, 50, k), npr.uniform(0, 50, k), npr.uniform(-5, 5, k)])
        pts[:4, :2] = [[0, 0], [50, 0], [0, 50], [50, 50]]
        s = SparseHeightMap(pts); sc2 = rnd.uniform(0.1, 10); s.set_scale(sc2)
        zmin, zmax = pts[:, 2].min(), pts[:, 2].max()
        for row in pts:
            cases += 1
            if abs(s.get_depth_at(row[0], row[1]) - sc2 * row[2]) > 1e-7: bad.append({"map": "sparse", "why": "not scale x stored height at a data point", "point": row.tolist()}); break
        for _ in range(60):
            qx, qy = rnd.uniform(0, 50), rnd.uniform(0, 50); cases += 1
            v = s.get_depth_at(qx, qy)
            if not (sc2 * zmin - 1e-7 <= v <= sc2 * zmax + 1e-7): bad.append({"map": "sparse", "why": "value outside [min, max] of the data inside the hull", "x": qx, "y": qy, "v": float(v)}); break
        for (qx, qy) in [(-1, 10), (51, 10), (10, -0.001), (10, 50.5)]:
            cases += 1
            if s.get_depth_at(qx, qy) != 0.0: bad.append({"map": "sparse", "why": "non-zero outside the hull", "x": qx, "y": qy}); break
        if bad: break
        tol2 = rnd.uniform(0.05, 1.0); s.set_tolerance(tol2)
        line2 = [rnd.uniform(1, 49), rnd.uniform(1, 49), rnd.uniform(1, 49), rnd.uniform(1, 49)]
        out2 = s.sample_path(line2); cases += 1
        full2 = s._interpolate_line(np.asarray(line2, dtype=float))
        err = _check_samples(out2, full2, line2, tol2, lambda x, y: s.get_depth_at(x, y), exact_ends=True)
        if err: bad.append({"map": "sparse", "why": err, "line": line2, "tolerance": tol2}); break
    res = {"name": "heightmaps-on-real-interpolants", "cases": cases, "bounded": True, "status": "violated" if bad else "held",
           "summary": f"{n} random 8/16-bit images (4..24 px) and {n} random point sets (4..30 points): exact at stored samples (x = column, y = row), zero outside, sparse values inside "
                      f"[min, max] in the hull; sample_path: ends at the line ends, samples on the line in order, own heights, every dropped sample < tolerance from the previously kept one"}
    if bad: res["replay"] = {"reproduced": True, "path": _save("C19", "heightmaps", bad[0]), "witness": bad[0]}
    return res


def _check_samples(out, full, line, tol, depth, exact_ends=False):
    import numpy as np
    if len(out) < 1: return "empty result"
    x1, y1, x2, y2 = line
    if exact_ends or True:
        if abs(out[0][0] - round(x1) if not exact_ends else out[0][0] - x1) > 1e-9 or abs(out[0][1] - (round(y1) if not exact_ends else y1)) > 1e-9: return "does not start at the requested line end"
        if abs(out[-1][0] - (round(x2) if not exact_ends else x2)) > 1e-9 or abs(out[-1][1] - (round(y2) if not exact_ends else y2)) > 1e-9: return "does not end at the requested line end"
    # subsequence of the full sampling, in order, with the map's own height
    j = 0
    kept_idx = []
    for p in out:
        while j < len(full) and not np.array_equal(full[j], p): j += 1
        if j == len(full): return "a returned point is not one of the line samples, or the order is broken"
        kept_idx.append(j)
        if abs(p[2] - depth(p[0], p[1])) > 1e-9: return "a returned point does not carry the map's own height"
    last = 0
    for idx in range(len(full)):
        if idx in kept_idx: last = idx; continue
        if abs(full[idx][2] - full[last][2]) >= tol: return f"dropped sample {idx} differs from the previously kept one by {abs(full[idx][2] - full[last][2])} >= tolerance"
    return None


# ---------------------------------------------------------------------------------------------- C15: the job queue feeds the sender in job order (bounded)
@bounded("C15", "job-queue-order")
def c15_queue(tier, seed):
    """bounded stand-in for the part of C15 that lives in gcoder.GCode (outside the functions under contract): printcore._sendnext walks the job through
    mainqueue.has_index / idxs / all_layers; for random jobs (layer changes, z-hops, non-extruding tails) that walk must visit every line exactly once, in order"""
    from gscrib.printrun import gcoder
    rnd = random.Random(seed or 1)
    n = 150 if tier == "quick" else 5000
    bad = []
    for i in range(n):
        lines, z, e = [], 0.2, 0.0
        for layer in range(rnd.randint(1, 5)):
            if rnd.random() < 0.8: z = round(z + rnd.choice([0.2, 0.2, -0.2, 5.0]), 3); lines.append(f"G1 Z{z}")
            for _ in range(rnd.randint(0, 4)):
                if rnd.random() < 0.7: e = round(e + rnd.uniform(0.1, 1), 4); lines.append(f"G1 X{rnd.randint(0, 50)} Y{rnd.randint(0, 50)} E{e}")
                else: lines.append(rnd.choice(["G0 X0 Y0", "M104 S0", "; comment", "M84", "G92 E0", "G28"]))
        if rnd.random() < 0.6: lines += [f"G1 Z{round(z + 10, 3)}", "M104 S0", "M84"]
        if not lines: continue
        g = gcoder.GCode(lines)
        walk, k = [], 0
        while g.has_index(k):
            l, j = g.idxs(k); walk.append(g.all_layers[l][j].raw); k += 1
        if walk != lines:
            bad.append({"job": lines, "walk": walk, "why": "the queue walk used by the sender does not reproduce the job line by line"}); break
    res = {"name": "job-queue-order", "cases": n, "bounded": True, "status": "violated" if bad else "held",
           "summary": f"{n} seeded random print jobs: walking mainqueue.has_index/idxs/all_layers (as _sendnext does) yields every job line exactly once, in order"}
    if bad: res["replay"] = {"reproduced": True, "path": _save("C15", "job-queue", bad[0]), "witness": bad[0]}
    return res
