"""Bounded stand-ins (labelled; never counted as proved).  BOUNDED[prop] = [(name, fn(tier, seed) -> dict)]

Each stands in for an ASSUMED contract of a library function that the deductive obligations rest on: the real library is
run on a finite, stated set of inputs and compared with the contract."""
import random, re, sys, os, json, math
from fractions import Fraction

REPO = os.environ.get("GSCRIB_REPO", "/repo")
if REPO not in sys.path: sys.path.insert(0, REPO)

BOUNDED = {}


def bounded(prop, name):
    def deco(fn):
        BOUNDED.setdefault(prop, []).append((name, fn)); return fn
    return deco


def _save(prop, name, payload):
    root = os.path.dirname(os.path.dirname(os.path.abspath(__file__)))
    os.makedirs(os.path.join(root, "replays"), exist_ok=True)
    path = os.path.join(root, "replays", f"{prop}_bounded_{name}.json")
    with open(path, "w") as f: json.dump(payload, f, indent=1, default=str)
    return path


# ---------------------------------------------------------------------------------------------- C18: report tokenisation
def _dec(rnd):
    s = rnd.choice(["", "-"]) + str(rnd.randint(0, 9999))
    if rnd.random() < 0.7: s += "." + str(rnd.randint(0, 999999)).zfill(rnd.randint(1, 6))
    return s


def _gen_report(rnd):
    """(line, expected tokens [(key, valuetext)]) from an independent generator of the four report families"""
    fam = rnd.choice(["marlin_pos", "marlin_temp", "grbl_status", "grbl_prb"])
    toks = []
    if fam == "marlin_pos":
        letters = rnd.sample(["X", "Y", "Z", "E"], rnd.randint(1, 4))
        parts = []
        for l in letters:
            v = _dec(rnd); parts.append(f"{l}:{v}"); toks.append((l, v))
        line = " ".join(parts)
        if rnd.random() < 0.7:
            cparts = []
            for l in rnd.sample(["X", "Y", "Z"], rnd.randint(1, 3)):
                v = str(rnd.randint(-99999, 99999)); cparts.append(f"{l}:{v}"); toks.append((l, v))
            line += " Count " + " ".join(cparts)
    elif fam == "marlin_temp":
        parts = []
        for l in rnd.sample(["T", "B", "C", "T0", "T1"], rnd.randint(1, 4)):
            v, tgt = _dec(rnd).lstrip("-"), _dec(rnd).lstrip("-")
            parts.append(f"{l}:{v} /{tgt}"); toks.append((l, v))
        if rnd.random() < 0.5:
            v = str(rnd.randint(0, 127)); parts.append(f"@:{v}")          # '@' is not alphanumeric: not a token
        line = ("ok " if rnd.random() < 0.5 else "") + " ".join(parts)
    elif fam == "grbl_status":
        fields = []
        kind = rnd.choice(["MPos", "WPos"])
        cs = [_dec(rnd) for _ in range(rnd.randint(3, 6))]
        fields.append((kind, ",".join(cs)))
        if rnd.random() < 0.8: fields.append(("FS", f"{rnd.randint(0, 9999)},{rnd.randint(0, 24000)}"))
        if rnd.random() < 0.3: fields.append(("Bf", f"{rnd.randint(0, 15)},{rnd.randint(0, 128)}"))
        rnd.shuffle(fields)
        toks = list(fields)
        line = "<" + rnd.choice(["Idle", "Run", "Hold"]) + "|" + "|".join(f"{k}:{v}" for k, v in fields) + ">"
    else:
        cs = [_dec(rnd) for _ in range(3)]
        toks = [("PRB", ",".join(cs))]
        line = f"[PRB:{','.join(cs)}:{rnd.randint(0, 1)}]"
    return line, toks


def _expected_readings(line, toks):
    out = {}
    def upd(k, v):
        if k not in out: out[k] = v
    for k, v in toks:
        if len(k) == 1 and k.isalnum(): upd(k, float(v))
        elif k == "FS" and line.startswith("<"):
            a, b = v.split(","); upd("F", float(a)); upd("S", float(b))
        elif k in ("MPos", "WPos", "PRB"):
            for ax, c in zip("XYZABC", v.split(",")): upd(ax, float(c))
    return out


@bounded("C18", "report-tokenisation")
def c18_tokens(tier, seed):
    from gscrib.writers import printrun_writer as pw
    from gscrib.params import ParamsDict
    import logging
    rnd = random.Random(seed or 1)
    n = 3000 if tier == "quick" else 100000
    bad = []
    for i in range(n):
        line, toks = _gen_report(rnd)
        got = pw.VALUE_PATTERN.findall(line.strip())
        # contract: findall yields exactly the (key, value-text) tokens of the report, in order (values keep their text)
        if [(k, v) for k, v in got] != toks:
            bad.append({"line": line, "expected_tokens": toks, "findall": got}); break
        w = pw.PrintrunWriter.__new__(pw.PrintrunWriter)
        w._reported_params = set(); w._current_params = ParamsDict(); w._logger = logging.getLogger("verif")
        w._current_params["Q"] = 42.0
        class _Ev:
            def set(self): pass
        w._ack_event = _Ev(); w._device_error = None
        w._on_device_message(line)
        exp = _expected_readings(line.strip(), toks); exp.setdefault("Q", 42.0)
        got_r = dict(w._current_params)
        if got_r != exp:
            bad.append({"line": line, "expected_readings": exp, "got": got_r}); break
    res = {"name": "report-tokenisation", "cases": n, "bounded": True,
           "summary": f"{n} generated Marlin/Grbl reports (seeded): VALUE_PATTERN.findall == independent tokenisation; end-to-end readings == first-occurrence spec",
           "status": "violated" if bad else "held"}
    if bad: res["replay"] = {"reproduced": True, "path": _save("C18", "report-tokenisation", bad[0]), "witness": bad[0]}
    return res


# ---------------------------------------------------------------------------------------------- C14: real writers, real files
@bounded("C14", "writer-histories-on-real-files")
def c14_histories(tier, seed):
    """bounded stand-in for the assumed file-object contract: random histories over real path files / streams / custom writers"""
    import io, tempfile, shutil
    from gscrib import GCodeCore
    from gscrib.writers import FileWriter
    from gscrib.writers.base_writer import BaseWriter
    class Cap(BaseWriter):
        def __init__(self): self.got = []; self.connected = True
        def connect(self): self.connected = True; return self
        def disconnect(self, wait=True): self.connected = False
        def write(self, b): self.got.append(bytes(b))
    rnd = random.Random(seed or 1)
    n = 60 if tier == "quick" else 2000
    root = os.path.dirname(os.path.dirname(os.path.abspath(__file__)))
    tmp = tempfile.mkdtemp(dir=os.environ.get("TMPDIR", os.path.join(root, ".tmp")))
    bad, known_seen = [], 0
    try:
        for h in range(n):
            eol = rnd.choice(["\\n", "\\r\\n"])
            g = GCodeCore(line_endings=eol)
            real_eol = eol.encode().decode("unicode-escape")
            pool = []
            for k in range(3):
                kind = rnd.choice(["path", "text", "binary", "custom"])
                if kind == "path": w = FileWriter(os.path.join(tmp, f"h{h}_{k}.gcode")); sink = w._output
                elif kind == "text": sink = io.StringIO(newline=""); w = FileWriter(sink)
                elif kind == "binary": sink = io.BytesIO(); w = FileWriter(sink)
                else: w = Cap(); sink = w
                pool.append(dict(kind=kind, w=w, sink=sink, expect=b"", ever_disconnected_with_output=False))
            registered, trace = [], []
            for step in range(rnd.randint(3, 12)):
                op = rnd.choice(["add", "add", "remove", "write", "write", "write", "flush", "teardown"])
                if op == "add":
                    p = rnd.choice(pool); g.add_writer(p["w"]); trace.append(("add", pool.index(p)))
                    if p not in registered: registered.append(p)
                elif op == "remove":
                    p = rnd.choice(pool); g.remove_writer(p["w"]); trace.append(("remove", pool.index(p)))
                    if p in registered: registered.remove(p)
                elif op == "write":
                    txt = rnd.choice(["G1 X1", "G0 Z5 ; héllo ünïcode", "M3 S1000   ", "; comment only"])
                    g.comment(txt) if txt.startswith(";") and False else g.write(txt)
                    data = (txt.rstrip() + real_eol).encode("utf-8"); trace.append(("write", txt))
                    for p in registered:
                        if p["kind"] == "path" and p["ever_disconnected_with_output"]: p["expect"] = b""; p["ever_disconnected_with_output"] = False; p["truncated"] = True
                        p["expect"] += data
                elif op == "flush": g.flush(); trace.append(("flush",))
                else:
                    g.teardown(); trace.append(("teardown",))
                    for p in registered:
                        if p["kind"] == "path" and p["expect"]: p["ever_disconnected_with_output"] = True
                    registered = []
                if op in ("flush", "teardown"):
                    for p in pool:
                        if p["kind"] == "path":
                            got = open(p["sink"], "rb").read() if os.path.exists(p["sink"]) else b""
                        elif p["kind"] == "text": got = p["sink"].getvalue().encode("utf-8")
                        elif p["kind"] == "binary": got = p["sink"].getvalue()
                        else: got = b"".join(p["sink"].got)
                        if p.get("truncated"): known_seen += 1
                        if got != p["expect"]: bad.append({"history": trace, "writer": p["kind"], "expected": p["expect"].decode(), "got": got.decode(errors="replace")})
                if bad: break
            g.teardown()
            if bad: break
    finally:
        shutil.rmtree(tmp, ignore_errors=True)
    res = {"name": "writer-histories-on-real-files", "cases": n, "bounded": True, "status": "violated" if bad else "held",
           "summary": f"{n} random histories (<=12 steps, 3 writers: path file / text / binary stream / custom) on the real OS; oracle = concatenation of delivered lines, "
                      f"with the known finding (reopen truncates) modelled; histories that exercised the known finding: {known_seen}"}
    if bad: res["replay"] = {"reproduced": True, "path": _save("C14", "writer-histories", bad[0]), "witness": bad[0]}
    return res


# ---------------------------------------------------------------------------------------------- C08: numpy positional formatting
@bounded("C08", "number-formatting-grid")
def c08_grid(tier, seed):
    """bounded stand-in for the numeric clause: DefaultFormatter.number(x) is a plain signed decimal within half a unit of the last
    configured decimal place of x (exact rational arithmetic), over a grid of doubles x all precisions 0..12"""
    import numpy as np
    from gscrib.formatters import DefaultFormatter
    rnd = random.Random(seed or 1)
    vals = [0.0, -0.0, 5e-324, -5e-324, 2.2250738585072014e-308, 1e-7, 1.5e-5, 0.1, 0.5, 1.0, -1.0, 123.456, 1e15, -1e15, 999999999999999.9,
            0.30000000000000004, 2.675, 1.005, 0.125, 0.375, 1e-13, 4.35, 8.345, 1234567.891]
    for p in range(0, 13):          # values at rounding ties of every precision
        for k in (1, 3, 5, 7, 25, 12345):
            vals += [(2 * k + 1) / (2 * 10 ** p), -(2 * k + 1) / (2 * 10 ** p)]
    n_rand = 1500 if tier == "quick" else 200000
    for _ in range(n_rand):
        e = rnd.uniform(-16, 15); vals.append(rnd.choice([-1, 1]) * rnd.random() * 10 ** e)
    extra = [np.float32(0.1), np.float64(2.5), np.int64(7), 3, -12, True, np.float16(0.333)]
    dec = re.compile(r"^-?\d+(\.\d+)?$")
    f = DefaultFormatter()
    bad, worst, cases = [], Fraction(0), 0
    for p in range(0, 13):
        f.set_decimal_places(p)
        half = Fraction(1, 2 * 10 ** p)
        for v in vals + extra:
            cases += 1
            s = f.number(v)
            exact = Fraction(float(v)) if not isinstance(v, (int, bool)) else Fraction(int(v))
            if not dec.match(s): bad.append({"value": repr(v), "precision": p, "text": s, "why": "not a plain signed decimal"}); break
            if "." in s and len(s.split(".")[1]) > p: bad.append({"value": repr(v), "precision": p, "text": s, "why": "more decimals than configured"}); break
            err = abs(Fraction(s) - exact)
            # numpy rounds the SHORTEST REPR of the double, not the double itself: allow the distance between the two (< 1 ulp) on top of half a unit
            slack = abs(Fraction(repr(float(v))) - exact) if not isinstance(v, (int, bool)) else 0
            worst = max(worst, err - half)
            if err > half + slack: bad.append({"value": repr(v), "precision": p, "text": s, "error": str(err), "half_unit": str(half)}); break
        if bad: break
    # non-finite values are rejected
    for v in (float("nan"), float("inf"), float("-inf"), np.float64("nan")):
        try:
            f.number(v); bad.append({"value": repr(v), "why": "non-finite value was formatted"})
        except ValueError: pass
    res = {"name": "number-formatting-grid", "cases": cases, "bounded": True, "status": "violated" if bad else "held",
           "summary": f"{cases} (value, precision) pairs: subnormals, ±0, ties at every precision 0..12, magnitudes to 1e15, numpy scalars, {n_rand} seeded random doubles; "
                      f"plain decimal, <= p decimals, |text - value| <= half unit (+ distance double↔shortest repr); worst excess over half a unit: {float(worst):.3e}"}
    if bad: res["replay"] = {"reproduced": True, "path": _save("C08", "number-grid", bad[0]), "witness": bad[0]}
    return res


# ---------------------------------------------------------------------------------------------- C09 / C08: text <-> block bridge
HOSTILE = ["hello", "", "  ", "a\nG1 X100", "a\r\nM3 S9000", "x\rG0 Z-5", "tab\tsep", "semi ; colon", "close ) paren ( open", "] } > \" ' */ /*",
           "unicode   sep   par \x85 nel", "\x0b\x0c vt ff", "G1 X1 Y2 ; G28", "ünïcödé ☃", "%", "N10 G1 X5*71", ")\n(G1 X9)", "*/ G1 X7 /*", "{}", "{0}", "{text}"]


@bounded("C09", "comment-confinement-end-to-end")
def c09_bridge(tier, seed):
    """bounded stand-in for the text<->block bridge and for the assumed splitlines/replace contracts: real builder, hostile comment
    text through every entry point and every comment style; the output is cut into lines and lexed by the independent lexer"""
    import io
    from gscrib import GCodeBuilder
    from specs.lexer import lex_line, split_lines, strip_comment
    rnd = random.Random(seed or 1)
    texts = list(HOSTILE)
    alphabet = "ab \n\r;()[]{}<>\"'/*\\%G1X \t "
    for _ in range(60 if tier == "quick" else 5000):
        texts.append("".join(rnd.choice(alphabet) for _ in range(rnd.randint(0, 12))))
    styles = [";", "(", "[", "{", "<", '"', "'", "/*", "#", "//"]
    def program(g, t):
        g.comment(t); g.comment(t, 1, "x"); g.annotate("key", t); g.move(x=1, y=2.5, comment=t); g.rapid(z=3, comment=t)
        g.set_axis(x=0, comment=t); g.move_absolute(x=4, comment=t); g.probe("towards", z=-1, comment=t); g.auto_home(comment=t)
        g.emergency_halt(t)
    bad, cases = [], 0
    for style in styles:
        for eol in ("\\n", "\\r\\n"):
            real_eol = eol.encode().decode("unicode-escape")
            def run(t):
                o = io.BytesIO(); g = GCodeBuilder(output=o, comment_symbols=style, line_endings=eol); program(g, t); g.flush()
                return split_lines(o.getvalue(), real_eol)
            ref = [lex_line(l, style) for l in run("x")]
            for t in texts:
                cases += 1
                try: lines = run(t)
                except Exception as e:
                    bad.append({"style": style, "text": t, "why": f"raised {type(e).__name__}: {e}"}); break
                got = [lex_line(l, style) for l in lines]
                if len(lines) != len(ref): bad.append({"style": style, "text": t, "why": f"{len(lines)} lines instead of {len(ref)}", "lines": lines}); break
                if any(("\n" in l or "\r" in l) for l in lines): bad.append({"style": style, "text": t, "why": "line break inside a line body", "lines": lines}); break
                if [(a["cmds"], a["words"], a["junk"]) for a in got] != [(a["cmds"], a["words"], a["junk"]) for a in ref]:
                    bad.append({"style": style, "text": t, "why": "executable words differ from the run with an innocuous comment", "lines": lines}); break
            if bad: break
        if bad: break
    res = {"name": "comment-confinement-end-to-end", "cases": cases, "bounded": True, "status": "violated" if bad else "held",
           "summary": f"{cases} (style, line ending, text) combinations x 11 entry points: same number of lines and same executable words (independent lexer) as with the comment 'x'"}
    if bad: res["replay"] = {"reproduced": True, "path": _save("C09", "comment-bridge", bad[0]), "witness": bad[0]}
    return res


BOUNDED.setdefault("C08", []).append(("comment-confinement-end-to-end", c09_bridge))
